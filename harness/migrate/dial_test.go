package migrate

import (
	"context"
	"fmt"
	"io"
	"net"
	"os"
	"path/filepath"
	"testing"
	"time"

	"pgregory.net/rapid"
	"storj.io/drpc/drpcmigrate"

	"verif/pbt"
)

// C16, the dialing side of the header connection: whichever of the three documented ways a client dials with
// (HeaderDialer.Dial, HeaderDialer.DialContext, DialWithHeader), the peer sees the header exactly once, before the
// first payload byte, whatever the pattern of writes. A unix socket in a scratch directory stands in for the network.

type dialCase struct {
	How    int // 0 HeaderDialer.Dial, 1 HeaderDialer.DialContext, 2 DialWithHeader
	Header string
	Writes []int // sizes of the client's writes
}

func runDial(c dialCase) (r pbt.Result) {
	dir, err := os.MkdirTemp(os.Getenv("VERIF_WORK"), "c16dial-")
	if err != nil {
		r.Failf("harness: %v", err)
		return
	}
	defer os.RemoveAll(dir)
	sock := filepath.Join(dir, "s")
	lis, err := net.Listen("unix", sock)
	if err != nil {
		// no unix sockets here: nothing to decide
		r.Label("no_unix_sockets")
		return
	}
	defer lis.Close()
	got := make(chan []byte, 1)
	go func() {
		conn, err := lis.Accept()
		if err != nil {
			got <- nil
			return
		}
		defer conn.Close()
		_ = conn.SetReadDeadline(time.Now().Add(30 * time.Second))
		b, _ := io.ReadAll(conn)
		got <- b
	}()
	var conn net.Conn
	switch c.How {
	case 0:
		conn, err = (&drpcmigrate.HeaderDialer{Header: c.Header}).Dial("unix", sock)
	case 1:
		conn, err = (&drpcmigrate.HeaderDialer{Header: c.Header}).DialContext(context.Background(), "unix", sock)
	default:
		conn, err = drpcmigrate.DialWithHeader(context.Background(), "unix", sock, c.Header)
	}
	if err != nil {
		r.Failf("dial failed")
		r.Detailf("%v", err)
		return
	}
	var want []byte
	wrote := false
	for i, n := range c.Writes {
		p := make([]byte, n)
		for j := range p {
			p[j] = byte('a' + (i+j)%26)
		}
		if m, err := conn.Write(p); err != nil || m != n {
			r.Failf("Write through the dialed connection did not report its own length")
			r.Detailf("write %d: n=%d err=%v", i, m, err)
			return
		}
		if !wrote {
			want, wrote = append(want, c.Header...), true
		}
		want = append(want, p...)
	}
	_ = conn.Close()
	b := <-got
	if string(b) != string(want) {
		r.Failf("the peer of a header-dialed connection did not see the header once, first, followed by the payload")
		r.Detailf("how=%d got %q want %q", c.How, b, want)
		return
	}
	r.Label(fmt.Sprintf("dial_%d", c.How))
	r.NonTrivial = len(c.Writes) > 0
	r.Key = fmt.Sprintf("%+v", c)
	return
}

func TestC16Dial(t *testing.T) {
	gen := func(t *rapid.T) dialCase {
		return dialCase{How: rapid.IntRange(0, 2).Draw(t, "how"), Header: rapid.SampledFrom([]string{"DRPC!!!1", "H", "aaaa"}).Draw(t, "header"),
			Writes: rapid.SliceOfN(rapid.SampledFrom([]int{0, 1, 8, 100}), 0, 3).Draw(t, "writes")}
	}
	pbt.Check(t, pbt.Prop[dialCase]{ID: "C16", Name: "dial", Gen: gen, Run: runDial})
}
