// Package migrate holds the check of the listener multiplexer and the header connection (C16).
package migrate

import (
	"bytes"
	"context"
	"errors"
	"fmt"
	"io"
	"net"
	"sync"
	"testing"

	"pgregory.net/rapid"
	"storj.io/drpc/drpcmigrate"

	"verif/pbt"
	"verif/sim"
)

// trackConn is the server side of a client connection as handed out by the base listener.
type trackConn struct {
	net.Conn
	mu     sync.Mutex
	closes int
}

func (t *trackConn) Close() error {
	t.mu.Lock()
	t.closes++
	t.mu.Unlock()
	return t.Conn.Close()
}
func (t *trackConn) Closes() int { t.mu.Lock(); defer t.mu.Unlock(); return t.closes }

type muxEvent struct {
	Kind  string // route accept conn closelis cancel basefail releasemon
	Which int    // route index (-1 = default) or connection index
}

type connSpec struct {
	Prefix int   // index of the route prefix to use, or -1 for a prefix no route has
	Short  int   // if > 0 the client sends only this many bytes (< prefix length) and closes
	Hangup bool  // the client connects and goes away without sending a single byte (health check, port scan)
	Body   int   // payload length after the prefix
	Splits []int // write sizes (cycled)
}

type c16Case struct {
	PrefixLen int
	NRoutes   int
	Conns     []connSpec
	Events    []muxEvent
	// HoldMonitor: the goroutine that unregisters a closed route is late: it stays parked in front of the
	// unregistration until a "releasemon" event (or the wind-down) lets it go
	HoldMonitor bool
	// ReadChunk: the accepting side reads the delivered connection with buffers of this many bytes (0 = large)
	ReadChunk int
	// LazyRead: the accepting side takes connections but reads them only at the very end, after every other
	// connection of the history has gone through the multiplexer
	LazyRead bool
}

func prefixOf(i, n int) string {
	// distinct prefixes that share leading bytes (so that routing must look at every byte)
	b := bytes.Repeat([]byte{'P'}, n)
	if n > 0 {
		b[n-1] = byte('a' + i)
	}
	if i < 0 && n > 0 {
		b[n-1] = 'Z'
	}
	return string(b)
}

type delivery struct {
	lis  string
	data []byte
}

func runC16(c c16Case) (r pbt.Result) {
	base := sim.NewListener()
	mux := drpcmigrate.NewListenMux(base, c.PrefixLen)
	ctx, cancel := context.WithCancel(context.Background())
	defer cancel()
	runDone := make(chan error, 1)
	go func() { runDone <- mux.Run(ctx) }()

	var pts *sim.Points
	if c.HoldMonitor {
		pts = sim.NewPoints([]string{"mux.monitorListener.beforeUnregister"})
		pts.Limit = 64
		pts.Install()
		defer pts.Uninstall()
	}
	releaseMonitors := func() {
		if pts == nil {
			return
		}
		for i := 0; i < 100; i++ {
			sim.WaitQuiescent()
			parked := pts.Parked()
			if len(parked) == 0 {
				return
			}
			for _, a := range parked {
				pts.Release(a)
			}
		}
	}
	// unregPending: the route was closed and the goroutine that unregisters it has not run yet
	unregPending := map[string]bool{}
	reRouted := 0
	var mu sync.Mutex
	listeners := map[string]net.Listener{"default": mux.Default()}
	lisClosed := map[string]bool{}
	accepting := map[string]bool{}
	acceptEnded := map[string]bool{}
	deliveries := map[int][]delivery{} // conn index -> deliveries
	fail := func(f string, a ...any) {
		r.Fail = fmt.Sprintf(f, a...)
		r.Detail = fmt.Sprintf("case=%+v", c)
	}
	nroutes := c.NRoutes
	if c.PrefixLen == 0 && nroutes > 1 {
		nroutes = 1
	}
	routeName := func(i int) string {
		if i < 0 {
			return "default"
		}
		return "route:" + prefixOf(i, c.PrefixLen)
	}
	type heldConn struct {
		name string
		conn net.Conn
	}
	var unread []heldConn
	readConn := func(name string, conn net.Conn) {
		var data []byte
		if c.ReadChunk > 0 {
			buf := make([]byte, c.ReadChunk)
			for {
				n, err := conn.Read(buf)
				data = append(data, buf[:n]...)
				if err != nil || len(data) > 1<<14 {
					break // (no client sends that much: a connection that keeps producing bytes is cut off here)
				}
			}
		} else {
			data, _ = io.ReadAll(conn)
		}
		_ = conn.Close()
		idx := -1
		if len(data) > 0 {
			idx = int(data[len(data)-1])
		}
		mu.Lock()
		deliveries[idx] = append(deliveries[idx], delivery{name, data})
		mu.Unlock()
	}
	startAccept := func(name string) {
		if accepting[name] || listeners[name] == nil {
			return
		}
		accepting[name] = true
		l := listeners[name]
		go func() {
			for {
				conn, err := l.Accept()
				if err != nil {
					mu.Lock()
					acceptEnded[name] = true
					mu.Unlock()
					return
				}
				if c.LazyRead {
					mu.Lock()
					unread = append(unread, heldConn{name, conn})
					mu.Unlock()
					continue
				}
				readConn(name, conn)
			}
		}()
	}
	type sentConn struct {
		spec        connSpec
		data        []byte
		tc          *trackConn
		accepted    bool
		expect      string // listener name, or "closed"
		stopped     bool
		hadAcceptor bool // an Accept was pending on the expected listener when the connection arrived
		eitherWay   bool // closing it and handing it to the default listener are both in order
	}
	var sent []*sentConn
	stopped := false
	hangups, lateAccepts := 0, 0
	splitInsidePrefix := false
	offer := func(i int) {
		spec := c.Conns[i%len(c.Conns)]
		pre := prefixOf(spec.Prefix, c.PrefixLen)
		if spec.Prefix >= nroutes {
			pre = prefixOf(-1, c.PrefixLen)
		}
		data := []byte(pre)
		for j := 0; j < spec.Body; j++ {
			data = append(data, byte(j*3+i))
		}
		data = append(data, byte(len(sent))) // marker: connection number, last byte
		short := spec.Short > 0 && spec.Short < c.PrefixLen
		if short {
			data = data[:spec.Short]
		}
		if spec.Hangup && c.PrefixLen > 0 {
			short, data = true, nil
			hangups++
		}
		cl, sv := net.Pipe()
		sc := &sentConn{spec: spec, data: data, tc: &trackConn{Conn: sv}}
		// where must it go, given the routes that are live right now?
		name := "route:" + pre
		switch {
		case stopped:
			sc.expect, sc.stopped = "closed", true
		case short:
			sc.expect = "closed"
		case listeners[name] != nil && !lisClosed[name]:
			sc.expect = name
		case listeners[name] != nil && lisClosed[name] && unregPending[name]:
			// closed but still registered: the connection may be closed or fall through to the default
			sc.expect, sc.eitherWay = "default", true
		case listeners[name] != nil && lisClosed[name]:
			// the route was closed: its prefix is unregistered once the monitor ran -> default
			sc.expect = "default"
		default:
			sc.expect = "default"
		}
		if sc.expect == "default" && lisClosed["default"] {
			sc.expect = "closed"
		}
		sc.hadAcceptor = accepting[sc.expect] && !sc.eitherWay
		sent = append(sent, sc)
		offered := make(chan bool, 1)
		go func() { offered <- base.Offer(sc.tc) }()
		sim.WaitQuiescent()
		select {
		case ok := <-offered:
			sc.accepted = ok
		default:
			sc.accepted = false // the base listener is not accepting any more
			base.Fail(errors.New("harness: base closed"))
			<-offered
		}
		if !sc.accepted {
			_ = cl.Close()
			return
		}
		go func() {
			defer cl.Close()
			rest := data
			for k := 0; len(rest) > 0; k++ {
				n := len(rest)
				if len(spec.Splits) > 0 {
					if s := spec.Splits[k%len(spec.Splits)]; s > 0 && s < n {
						n = s
					}
				}
				if _, err := cl.Write(rest[:n]); err != nil {
					return
				}
				rest = rest[n:]
			}
		}()
		if len(spec.Splits) > 0 && spec.Splits[0] > 0 && spec.Splits[0] < c.PrefixLen {
			splitInsidePrefix = true
		}
		sim.WaitQuiescent()
	}
	nconn := 0
	for _, ev := range c.Events {
		switch ev.Kind {
		case "route":
			if nroutes == 0 {
				continue
			}
			i := ev.Which % nroutes
			name := routeName(i)
			if listeners[name] == nil && !stopped {
				listeners[name] = mux.Route(prefixOf(i, c.PrefixLen))
			} else if lisClosed[name] && !stopped {
				// the application registers the route again after having closed its listener
				l := mux.Route(prefixOf(i, c.PrefixLen))
				if l != listeners[name] {
					// a fresh listener: the route is live again
					listeners[name], lisClosed[name], accepting[name] = l, false, false
					mu.Lock()
					acceptEnded[name] = false
					mu.Unlock()
					unregPending[name] = false
					reRouted++
				}
			}
		case "accept":
			i := -1
			if nroutes > 0 && ev.Which%(nroutes+1) < nroutes {
				i = ev.Which % (nroutes + 1)
			}
			startAccept(routeName(i))
		case "conn":
			offer(nconn)
			nconn++
		case "closelis":
			i := -1
			if nroutes > 0 && ev.Which%(nroutes+1) < nroutes {
				i = ev.Which % (nroutes + 1)
			}
			name := routeName(i)
			if l := listeners[name]; l != nil {
				_ = l.Close()
				if !lisClosed[name] && name != "default" && c.HoldMonitor {
					unregPending[name] = true
				}
				lisClosed[name] = true
			}
		case "releasemon":
			releaseMonitors()
			for name := range unregPending {
				unregPending[name] = false
			}
		case "conn_during_stop":
			// the base listener's Accept has taken the connection and has not returned yet when Run is stopped
			if stopped {
				continue
			}
			release := base.HoldNextAccept()
			stopped = true // expectation for this connection: it may be closed or delivered, never lost
			offer(nconn)
			nconn++
			cancel()
			sim.WaitQuiescent()
			release()
			lateAccepts++
		case "cancel":
			cancel()
			stopped = true
		case "basefail":
			base.Fail(errors.New("base accept failed"))
			stopped = true
		}
		sim.WaitQuiescent()
	}
	// wind down: stop the mux, start accept loops everywhere so that nothing is left for lack of an acceptor
	releaseMonitors()
	cancel()
	releaseMonitors()
	sim.WaitQuiescent()
	select {
	case <-runDone:
	default:
		// Run waits for the routed listeners to be done; that needs nothing from us
		fail("Run did not return after its context was cancelled")
		return
	}
	for name := range listeners {
		startAccept(name)
	}
	sim.WaitQuiescent()
	mu.Lock()
	late := append([]heldConn(nil), unread...)
	mu.Unlock()
	for _, h := range late {
		readConn(h.name, h.conn)
	}
	mu.Lock()
	defer mu.Unlock()
	for name := range listeners {
		if !acceptEnded[name] {
			fail("Accept of a listener stayed pending after the multiplexer stopped")
			r.Detailf("listener %s", name)
			return
		}
	}
	delivered := 0
	for i, sc := range sent {
		if !sc.accepted {
			continue
		}
		ds := deliveries[i]
		if len(sc.data) == 0 || (sc.spec.Short > 0 && sc.spec.Short < c.PrefixLen) || (sc.spec.Hangup && c.PrefixLen > 0) {
			ds = nil // a too-short stream carries no marker; it must simply have been closed
			for _, d := range deliveries[-1] {
				_ = d
			}
		}
		if len(ds) > 1 {
			fail("a connection was delivered more than once")
			return
		}
		closedN := sc.tc.Closes()
		if len(ds) == 1 {
			delivered++
			d := ds[0]
			want := sc.data
			if d.lis != "default" {
				want = sc.data[c.PrefixLen:]
			}
			if !bytes.Equal(d.data, want) {
				fail("delivered byte stream differs from what the client sent")
				r.Detailf("conn %d via %s: got %x want %x", i, d.lis, d.data, want)
				return
			}
			if sc.expect != "closed" && d.lis != sc.expect {
				fail("connection delivered to the wrong listener")
				r.Detailf("conn %d: got %s want %s", i, d.lis, sc.expect)
				return
			}
			if sc.expect == "closed" && !sc.stopped {
				fail("a connection that had to be closed was delivered")
				return
			}
		} else {
			if closedN == 0 {
				fail("a connection was neither delivered nor closed")
				r.Detailf("conn %d expect %s", i, sc.expect)
				return
			}
			if sc.expect != "closed" && sc.hadAcceptor {
				fail("a routable connection was closed instead of delivered")
				r.Detailf("conn %d expect %s", i, sc.expect)
				return
			}
		}
	}
	if delivered > 0 {
		r.Label("delivered")
	}
	if splitInsidePrefix {
		r.Label("prefix_split_across_writes")
	}
	if hangups > 0 {
		r.Label("client_went_away_before_first_byte")
	}
	if reRouted > 0 {
		r.Label("route_registered_again_after_close")
	}
	if lateAccepts > 0 {
		r.Label("accept_returned_while_stopping")
	}
	if c.ReadChunk > 0 {
		r.Label("small_reads_on_the_accepting_side")
	}
	if c.LazyRead {
		r.Label("connections_read_only_at_the_end")
	}
	if c.HoldMonitor {
		r.Label("late_unregistration")
	}
	if len(listeners) > 1 {
		r.Label("routes_registered")
	}
	r.NonTrivial = len(sent) > 0 && delivered > 0 && (len(listeners) > 1 || splitInsidePrefix)
	r.Key = fmt.Sprintf("%+v", c)
	return
}

// stoppedBefore reports whether the history stops the mux explicitly (then late connections may be closed).
func stoppedBefore(evs []muxEvent) bool {
	for _, e := range evs {
		if e.Kind == "cancel" || e.Kind == "basefail" || e.Kind == "closelis" {
			return true
		}
	}
	return false
}

func genC16(t *rapid.T) c16Case {
	c := c16Case{PrefixLen: rapid.IntRange(0, 8).Draw(t, "plen"), NRoutes: rapid.IntRange(0, 3).Draw(t, "nroutes")}
	c.Conns = rapid.SliceOfN(rapid.Custom(func(t *rapid.T) connSpec {
		s := connSpec{Prefix: rapid.IntRange(-1, 3).Draw(t, "prefix"), Body: rapid.SampledFrom([]int{0, 1, 10, 200}).Draw(t, "body")}
		if rapid.IntRange(0, 5).Draw(t, "short") == 0 {
			s.Short = rapid.IntRange(1, 7).Draw(t, "shortlen")
		}
		s.Splits = rapid.SliceOfN(rapid.IntRange(1, 9), 0, 4).Draw(t, "splits")
		s.Hangup = rapid.IntRange(0, 7).Draw(t, "hangup") == 0
		return s
	}), 1, 4).Draw(t, "conns")
	kinds := []string{"route", "route", "route", "accept", "accept", "accept", "accept", "accept", "accept", "conn", "conn", "conn", "conn", "conn", "conn", "closelis", "closelis", "cancel", "basefail", "releasemon", "conn_during_stop"}
	c.Events = rapid.SliceOfN(rapid.Custom(func(t *rapid.T) muxEvent {
		return muxEvent{Kind: rapid.SampledFrom(kinds).Draw(t, "ev"), Which: rapid.IntRange(0, 3).Draw(t, "which")}
	}), 3, 14).Draw(t, "events")
	c.HoldMonitor = rapid.IntRange(0, 2).Draw(t, "holdmonitor") == 0
	c.ReadChunk = rapid.SampledFrom([]int{0, 0, 1, 2, 3, 5}).Draw(t, "readchunk")
	c.LazyRead = rapid.IntRange(0, 3).Draw(t, "lazyread") == 0
	return c
}

func TestC16Mux(t *testing.T) {
	pbt.Check(t, pbt.Prop[c16Case]{ID: "C16", Name: "mux", Gen: genC16, Run: runC16})
}

// ---- HeaderConn -----------------------------------------------------------------------------

type recConn struct {
	net.Conn
	mu     sync.Mutex
	wire   []byte
	writes int
	parkAt int
	gate   chan struct{}
}

func (c *recConn) Write(p []byte) (int, error) {
	c.mu.Lock()
	c.writes++
	park := c.parkAt > 0 && c.writes == c.parkAt
	c.mu.Unlock()
	if park {
		<-c.gate
	}
	c.mu.Lock()
	c.wire = append(c.wire, p...)
	c.mu.Unlock()
	return len(p), nil
}

type hdrCase struct {
	Header  string
	Writers [][]int // per goroutine: sizes of its writes
	ParkAt  int     // park this underlying write (1-based, 0 = none) until the others are blocked or done
}

func runHeader(c hdrCase) (r pbt.Result) {
	rc := &recConn{parkAt: c.ParkAt, gate: make(chan struct{})}
	hc := drpcmigrate.NewHeaderConn(rc, c.Header)
	type res struct {
		n   int
		err error
		sz  int
	}
	var mu sync.Mutex
	var results []res
	done := make(chan struct{}, len(c.Writers))
	total := 0
	for gi, sizes := range c.Writers {
		gi, sizes := gi, sizes
		for _, s := range sizes {
			total += s
		}
		go func() {
			defer func() { done <- struct{}{} }()
			for k, s := range sizes {
				buf := bytes.Repeat([]byte{byte('A' + gi)}, s)
				if s > 0 {
					buf[0] = byte('a' + gi) // first byte of every write is lower case
					_ = k
				}
				n, err := hc.Write(buf)
				mu.Lock()
				results = append(results, res{n, err, s})
				mu.Unlock()
			}
		}()
	}
	sim.WaitQuiescent()
	if c.ParkAt > 0 {
		close(rc.gate)
	}
	for range c.Writers {
		<-done
	}
	rc.mu.Lock()
	wire := append([]byte(nil), rc.wire...)
	rc.mu.Unlock()
	fail := func(f string, a ...any) {
		r.Fail = fmt.Sprintf(f, a...)
		r.Detail = fmt.Sprintf("case=%+v wire=%q", c, wire)
	}
	nwrites := 0
	for _, w := range c.Writers {
		nwrites += len(w)
	}
	if nwrites == 0 {
		if len(wire) != 0 {
			fail("header written although nothing was ever written")
		}
		return
	}
	if !bytes.HasPrefix(wire, []byte(c.Header)) {
		fail("the header is not the first thing on the wire")
		return
	}
	if len(wire) != len(c.Header)+total {
		fail("wire length is not header once plus the payload")
		return
	}
	// per writer the payload bytes appear in order and whole
	for _, rs := range results {
		if rs.err != nil || rs.n != rs.sz {
			fail("Write returned a wrong count")
			r.Detailf("n=%d size=%d err=%v", rs.n, rs.sz, rs.err)
			return
		}
	}
	counts := map[byte]int{}
	for _, b := range wire[len(c.Header):] {
		counts[b|0x20]++
	}
	for gi, sizes := range c.Writers {
		want := 0
		for _, s := range sizes {
			want += s
		}
		if counts[byte('a'+gi)] != want {
			fail("payload bytes of a writer are missing or duplicated")
			return
		}
	}
	if len(c.Writers) > 1 {
		r.Label("concurrent_writers")
	}
	if c.ParkAt > 0 {
		r.Label("first_write_parked")
	}
	r.NonTrivial = nwrites >= 2
	r.Key = fmt.Sprintf("%+v", c)
	return
}

func TestC16Header(t *testing.T) {
	gen := func(t *rapid.T) hdrCase {
		c := hdrCase{Header: rapid.SampledFrom([]string{"DRPC!!!1", "", "H", "aaaa"}).Draw(t, "header")}
		c.Writers = rapid.SliceOfN(rapid.SliceOfN(rapid.SampledFrom([]int{0, 1, 2, 8, 100}), 0, 3), 1, 3).Draw(t, "writers")
		c.ParkAt = rapid.IntRange(0, 2).Draw(t, "park")
		return c
	}
	pbt.Check(t, pbt.Prop[hdrCase]{ID: "C16", Name: "header", Gen: gen, Run: runHeader})
}
