package conn

import (
	"fmt"
	"os"
	"testing"

	"verif/pbt"
	"verif/sim"
)

func TestMain(m *testing.M) {
	defer func() {
		if v := recover(); v != nil {
			if sc, ok := v.(sim.SpinCap); ok {
				fmt.Println("HARNESS-INCONCLUSIVE: quiescence spin cap\n" + sc.Dump)
				pbt.WriteStats()
				os.Exit(3)
			}
			panic(v)
		}
	}()
	pbt.Main(m)
}
