package conn

import (
	"bytes"
	"fmt"
	"strings"
	"testing"

	"pgregory.net/rapid"
	"storj.io/drpc/drpcerr"

	"verif/pbt"
	"verif/ref"
	"verif/sim"
)

// ---- C02 part 1: generated sequences of RPCs on one connection ---------------------------

func genC02(t *rapid.T) c06Case {
	c := c06Case{Cfg: genCfg(t)}
	var excl string
	n := rapid.IntRange(2, 6).Draw(t, "nrpcs")
	for i := 0; i < n; i++ {
		c.RPCs = append(c.RPCs, genRPC06(t, &excl))
	}
	if rapid.IntRange(0, 2).Draw(t, "points") == 0 {
		c.Cfg.Points = rapid.SliceOfNDistinct(rapid.SampledFrom([]string{"conn.NewStream.afterNewClientStream", "conn.Invoke.afterNewClientStream", "conn.afterMetadata",
			"manager.manageReader.beforeDispatch", "manager.newStream.beforeSet", "manager.acquireSemaphore.acquired", "manager.manageStream.ctxDone", "manager.manageStream.enter"}), 1, 3, func(s string) string { return s }).Draw(t, "pts")
		c.Cfg.PointLimit = 10
	}
	c.Concurrent = rapid.IntRange(0, 1).Draw(t, "concurrent") == 0
	c.StallDir = rapid.IntRange(0, 2).Draw(t, "stalldir")
	c.StallFrom = rapid.IntRange(0, 8).Draw(t, "stallfrom")
	c.StallLen = rapid.IntRange(1, 40).Draw(t, "stalllen")
	c.Choices = rapid.SliceOfN(rapid.SampledFrom(c04Kinds), 0, 300).Draw(t, "choices")
	return c
}

func runC02(c c06Case) (r pbt.Result) {
	w, forced, undelivered := execPrograms(c)
	defer w.Drain()
	fail := func(f string, a ...any) {
		r.Fail = fmt.Sprintf(f, a...)
		r.Detail = w.Dump()
	}
	// every delivered payload carried its own RPC's tag and direction (checked on receipt)
	if v := w.Violations(); len(v) > 0 {
		fail("%s", v[0])
		return
	}
	early := 0
	for _, op := range w.OpsSnapshot() {
		if op.Err == nil || op.RPC < 0 {
			continue
		}
		// an error with a handler code must be the error of this RPC's own handler
		if code := drpcerr.Code(op.Err); code >= 100 && code < 100+uint64(len(c.RPCs))+64 {
			if code != uint64(100+op.RPC) || !strings.Contains(op.Err.Error(), fmt.Sprintf("herr-%d", op.RPC)) {
				fail("an RPC observed the error of a different RPC")
				r.Detailf("rpc %d %s %s: %v (code %d)", op.RPC, op.Actor, op.Op, op.Err, code)
				return
			}
		} else if strings.Contains(op.Err.Error(), "herr-") && !strings.Contains(op.Err.Error(), fmt.Sprintf("herr-%d", op.RPC)) {
			fail("an RPC observed the error text of a different RPC")
			r.Detailf("rpc %d %s %s: %v", op.RPC, op.Actor, op.Op, op.Err)
			return
		}
		early++
	}
	// a unary call depends on nothing but its own stream: with the transport flowing it returns by itself
	// (with a response or an error) whatever the handler program does; if it had to be ended from outside,
	// something left over from another call kept it from completing. (Calls issued one after the other only:
	// a concurrent caller may legitimately be queued behind a call that stalls at application level.)
	for k, p := range c.RPCs {
		if !c.Concurrent && forcedRPCs[k] && p.Unary && len(p.CSubs) == 0 {
			fail("a unary call did not complete although nothing on its own stream kept it from completing")
			r.Detailf("rpc %d", k)
			return
		}
	}
	for rpc, n := range w.HStarted {
		if n > 1 {
			fail("a handler was started more than once for one client call")
			r.Detailf("%s started %d times", rpc, n)
			return
		}
	}
	// a unary call that returned nil returned the response to its own request (checked in the actor);
	// additionally no stale stream id may have been dispatched: inspect what the server wrote per stream
	if forced > 0 {
		r.Label("forced_close")
	}
	if undelivered {
		r.Label("leftover_bytes_when_next_rpc_started")
	}
	if c.Concurrent {
		r.Label("concurrent_callers")
	}
	if early > 0 {
		r.Label("rpc_ended_with_error")
	}
	if len(c.Cfg.Points) > 0 {
		r.Label("points")
	}
	r.NonTrivial = undelivered || (c.Concurrent && len(c.RPCs) >= 2)
	r.Key = strings.Join(w.Trace, ",") + fmt.Sprintf("|%+v|%+v", c.Cfg, c.RPCs)
	r.Sample = map[string]any{"cfg": c.Cfg, "rpcs": c.RPCs, "concurrent": c.Concurrent, "trace": clipTrace(w.Trace)}
	return
}

func TestC02Sequences(t *testing.T) {
	pbt.Check(t, pbt.Prop[c06Case]{ID: "C02", Name: "sequences", Gen: genC02, Run: runC02})
}

// ---- C02 part 2: a wire-level server that sends late packets of earlier streams ---------

type stalePkt struct {
	Kind    uint8 // 2 message, 3 error, 5 close, 6 closesend, 4 cancel(control), 9/33 unknown control
	Size    int
	Frames  int // the packet is sent in this many frames (>= 1)
	Control bool
	// Unfinished: the final (done) frame is never sent (the sender was interrupted mid-packet).
	Unfinished bool
}

type c02PeerRPC struct {
	Unary    bool
	ReqSize  int
	RespSize int
	NResp    int        // stream: messages the server sends
	Stale    []stalePkt // late packets of the PREVIOUS stream, sent before this stream's response
	// StaleWhen: 0 as soon as the RPC is about to start (before the client created the stream),
	// 1 after the client's request is on the wire.
	StaleWhen int
	// Unanswered: the server never answers this call; the client gives up by cancelling its context
	// (soft cancel keeps the connection). The next call's stale packets then start at message id 1.
	Unanswered bool
}

type c02PeerCase struct {
	Cfg     sim.Config
	RPCs    []c02PeerRPC
	Choices []int
}

func packetFramesOpt(sid, mid uint64, kind uint8, control bool, data []byte, frames int, unfinished bool) []byte {
	b := packetFrames(sid, mid, kind, control, data, frames)
	if !unfinished {
		return b
	}
	// clear the done bit of the last frame: re-encode without it
	var out []byte
	rest := b
	for len(rest) > 0 {
		fr, rem, _ := ref.ParseFrame(rest)
		fr.Done = false
		out = ref.AppendFrame(out, fr)
		rest = rem
	}
	return out
}

func packetFrames(sid, mid uint64, kind uint8, control bool, data []byte, frames int) []byte {
	if frames < 1 {
		frames = 1
	}
	var out []byte
	per := (len(data) + frames - 1) / frames
	for i := 0; i < frames; i++ {
		lo, hi := i*per, (i+1)*per
		if lo > len(data) {
			lo = len(data)
		}
		if hi > len(data) || i == frames-1 {
			hi = len(data)
		}
		out = ref.AppendFrame(out, ref.Frame{Stream: sid, Message: mid, Kind: kind, Control: control, Done: i == frames-1, Data: data[lo:hi]})
	}
	return out
}

func marshalErr(code uint64, msg string) []byte {
	b := make([]byte, 8, 8+len(msg))
	for i := 0; i < 8; i++ {
		b[i] = byte(code >> (56 - 8*uint(i)))
	}
	return append(b, msg...)
}

var genStalePkt = rapid.Custom(func(t *rapid.T) stalePkt {
	k := rapid.SampledFrom([]uint8{2, 2, 3, 5, 6, 4, 9, 33}).Draw(t, "kind")
	p := stalePkt{Kind: k, Size: rapid.SampledFrom([]int{0, 1, 30}).Draw(t, "size"), Frames: rapid.IntRange(1, 3).Draw(t, "frames")}
	if k == 4 || k == 9 || k == 33 {
		p.Control = true
	}
	return p
})

func genC02Peer(t *rapid.T) c02PeerCase {
	c := c02PeerCase{Cfg: sim.Config{Soft: rapid.Bool().Draw(t, "soft"), NoServer: true,
		SplitSize: rapid.SampledFrom([]int{0, 5, 64}).Draw(t, "split"), WriterBuf: rapid.SampledFrom([]int{0, 1, 40}).Draw(t, "wbuf")}}
	n := rapid.IntRange(2, 4).Draw(t, "nrpcs")
	for i := 0; i < n; i++ {
		p := c02PeerRPC{Unary: rapid.Bool().Draw(t, "unary"), ReqSize: sizeGen.Draw(t, "req"), RespSize: sizeGen.Draw(t, "resp"), NResp: rapid.IntRange(0, 3).Draw(t, "nresp")}
		if i > 0 {
			p.Stale = rapid.SliceOfN(genStalePkt, 0, 4).Draw(t, "stale")
			p.StaleWhen = rapid.IntRange(0, 1).Draw(t, "stalewhen")
			if len(p.Stale) > 0 && rapid.IntRange(0, 1).Draw(t, "unfinished") == 0 {
				last := &p.Stale[len(p.Stale)-1]
				last.Kind, last.Control, last.Unfinished = 2, false, true
			}
		}
		if c.Cfg.Soft && i < n-1 && rapid.IntRange(0, 2).Draw(t, "unanswered") == 0 {
			p.Unanswered, p.Unary = true, true
		}
		c.RPCs = append(c.RPCs, p)
	}
	if rapid.IntRange(0, 2).Draw(t, "points") == 0 {
		c.Cfg.Points = []string{"conn.NewStream.afterNewClientStream", "conn.Invoke.afterNewClientStream", "manager.manageReader.beforeDispatch", "manager.newStream.beforeSet"}
		c.Cfg.PointLimit = 8
	}
	c.Choices = genChoices(t, 200)
	return c
}

func runC02Peer(c c02PeerCase) (r pbt.Result) {
	var rpcs []sim.RPC
	for _, p := range c.RPCs {
		rp := sim.RPC{Unary: p.Unary, ReqSize: p.ReqSize}
		if p.Unanswered {
			rp.CSubs = []sim.Prog{{Steps: []sim.Step{{Op: "cancel"}}}}
		}
		if !p.Unary {
			rp.Client.Steps = []sim.Step{{Op: "send", Size: p.ReqSize}, {Op: "closesend"}, {Op: "drain"}}
		}
		rpcs = append(rpcs, rp)
	}
	w := sim.NewWorld(c.Cfg, rpcs)
	defer w.Drain()
	fail := func(f string, a ...any) {
		r.Fail = fmt.Sprintf(f, a...)
		r.Detail = fmt.Sprintf("case=%+v\n", c) + w.Dump()
	}
	choices := append([]int(nil), c.Choices...)
	s2c := w.B.Out()
	staleDelivered := false
	// message ids the fake server has used per stream
	for k, p := range c.RPCs {
		sid := uint64(k + 1)
		// late packets of the previous stream: ids continue after what the server used there
		var stale []byte
		mid := uint64(10)
		if k > 0 && c.RPCs[k-1].Unanswered {
			mid = 1 // nothing was ever sent on the previous stream
		}
		for _, sp := range p.Stale {
			var data []byte
			switch sp.Kind {
			case 2:
				data = sim.MakePayload(uint32(k-1)<<8, 's', 90+uint32(mid), sp.Size) // a message of the OLD rpc
			case 3:
				data = marshalErr(uint64(100+k-1), fmt.Sprintf("herr-%d", k-1))
			}
			stale = append(stale, packetFramesOpt(sid-1, mid, sp.Kind, sp.Control, data, sp.Frames, sp.Unfinished)...)
			mid++
		}
		injectedStale := len(stale) == 0
		if p.StaleWhen == 0 && !injectedStale {
			s2c.Inject(stale)
			injectedStale = true
			staleDelivered = true
		}
		w.StartClient(k)
		name := fmt.Sprintf("c%d", k)
		responded := false
		for steps := 0; steps < 200; steps++ {
			w.Quiesce()
			if w.Done(name) {
				break
			}
			// has the client's request reached the wire? (its half-close frame for this stream)
			reqOnWire := false
			for _, fr := range parseWire(w.A.Out().AcceptedBytes()).Frames {
				if fr.Stream == sid && fr.Kind == 6 && fr.Done {
					reqOnWire = true
				}
			}
			if reqOnWire && !injectedStale {
				s2c.Inject(stale)
				injectedStale, staleDelivered = true, true
				w.Trace = append(w.Trace, "peer.stale")
				continue
			}
			if reqOnWire && p.Unanswered {
				// the server stays silent; the client gives up
				only := sim.Filter{OnlyActors: func(n string) bool { return n == fmt.Sprintf("c%d.1", k) }}
				if _, ok := w.Step(1, only); !ok {
					break
				}
				continue
			}
			if reqOnWire && injectedStale && !responded {
				var resp []byte
				m := uint64(1)
				n := 1
				if !p.Unary {
					n = p.NResp
				}
				for i := 0; i < n; i++ {
					resp = append(resp, packetFrames(sid, m, 2, false, sim.MakePayload(uint32(k)<<8, 's', uint32(i), p.RespSize), 1+i%2)...)
					m++
				}
				resp = append(resp, packetFrames(sid, m, 6, false, nil, 1)...)
				s2c.Inject(resp)
				responded = true
				w.Trace = append(w.Trace, "peer.response")
				continue
			}
			// the canceller of an unanswered call is only released by the peer logic above
			notCanceller := sim.Filter{OnlyActors: func(n string) bool { return !strings.HasSuffix(n, ".1") }}
			if _, ok := w.Step(take(&choices), notCanceller); !ok {
				break
			}
		}
		w.Flush(sim.Filter{Coarse: true, OnlyActors: func(n string) bool { return !strings.HasSuffix(n, ".1") || w.Done(name) }})
		if !w.Done(name) {
			fail("client RPC did not complete although the server answered it")
			return
		}
	}
	if v := w.Violations(); len(v) > 0 {
		fail("%s", v[0])
		return
	}
	if w.Closed() {
		fail("late packets of an earlier stream killed the connection")
		return
	}
	for _, op := range w.OpsSnapshot() {
		switch {
		case op.Op == "invoke" && op.Err != nil && c.RPCs[op.RPC].Unanswered:
		case op.Op == "invoke" && op.Err != nil:
			fail("unary call failed although its own response was sent")
			r.Detailf("rpc %d: %v", op.RPC, op.Err)
			return
		case (op.Op == "send" || op.Op == "closesend") && op.Err != nil:
			fail("stream operation failed because of another stream's late packets")
			r.Detailf("rpc %d %s: %v", op.RPC, op.Op, op.Err)
			return
		}
	}
	// each streaming RPC received exactly its own messages
	for k, p := range c.RPCs {
		want := 1
		if !p.Unary {
			want = p.NResp
		}
		if p.Unanswered {
			want = 0
		}
		if got := len(w.Recv[fmt.Sprintf("%d/s/0", k)]); got != want {
			fail("an RPC did not receive exactly its own response messages")
			r.Detailf("rpc %d got %d want %d", k, got, want)
			return
		}
	}
	if staleDelivered {
		r.Label("stale_packets_sent")
		r.NonTrivial = true
	}
	for _, p := range c.RPCs {
		if p.Unanswered {
			r.Label("unanswered_cancelled_call")
		}
		for _, sp := range p.Stale {
			if sp.Unfinished {
				r.Label("unfinished_stale_packet")
			}
		}
	}
	if len(c.Cfg.Points) > 0 {
		r.Label("points")
	}
	r.Key = strings.Join(w.Trace, ",") + fmt.Sprintf("|%+v", c.RPCs)
	r.Sample = map[string]any{"rpcs": c.RPCs, "trace": clipTrace(w.Trace)}
	return
}

func TestC02StaleFromServer(t *testing.T) {
	pbt.Check(t, pbt.Prop[c02PeerCase]{ID: "C02", Name: "stale_from_server", Gen: genC02Peer, Run: runC02Peer})
}

var _ = bytes.Equal

// ---- C02 part 3: a wire-level client that sends late packets of earlier streams -----------

type c02CliRPC struct {
	ReqSize int
	Stale   []stalePkt  // late packets of the previous stream, sent before this stream's invoke
	Meta    [][2]string // metadata sent with this invoke
	// Abandoned: an InvokeMetadata packet (carrying AbMeta) for stream id sid is sent and the call is
	// abandoned; the real call then uses sid+1.
	Abandoned bool
	AbMeta    [][2]string
	HErr      bool // handler answers with an error instead of the echo
}

type c02CliCase struct {
	Cfg     sim.Config
	RPCs    []c02CliRPC
	Choices []int
}

func genC02Cli(t *rapid.T) c02CliCase {
	c := c02CliCase{Cfg: sim.Config{Soft: rapid.Bool().Draw(t, "soft"), NoClient: true,
		SplitSize: rapid.SampledFrom([]int{0, 5, 64}).Draw(t, "split"), WriterBuf: rapid.SampledFrom([]int{0, 1, 40}).Draw(t, "wbuf")}}
	kvGen := rapid.SliceOfN(rapid.Custom(func(t *rapid.T) [2]string {
		return [2]string{rapid.SampledFrom([]string{"auth", "trace", "", "k"}).Draw(t, "k"), rapid.StringN(0, 6, -1).Draw(t, "v")}
	}), 0, 2)
	n := rapid.IntRange(2, 4).Draw(t, "nrpcs")
	for i := 0; i < n; i++ {
		p := c02CliRPC{ReqSize: sizeGen.Draw(t, "req"), Meta: kvGen.Draw(t, "meta"), HErr: rapid.IntRange(0, 3).Draw(t, "herr") == 0}
		if i > 0 {
			p.Stale = rapid.SliceOfN(genStalePkt, 0, 4).Draw(t, "stale")
		}
		if rapid.IntRange(0, 3).Draw(t, "abandon") == 0 {
			p.Abandoned = true
			p.AbMeta = append(kvGen.Draw(t, "abmeta"), [2]string{"secret", fmt.Sprintf("call-%d", i)})
		}
		c.RPCs = append(c.RPCs, p)
	}
	if rapid.IntRange(0, 2).Draw(t, "points") == 0 {
		c.Cfg.Points = []string{"manager.manageReader.beforeDispatch", "manager.newStream.beforeSet"}
		c.Cfg.PointLimit = 8
	}
	c.Choices = genChoices(t, 200)
	return c
}

func encodeMeta(kvs [][2]string) []byte {
	m := map[string]string{}
	var order []string
	for _, kv := range kvs {
		if _, ok := m[kv[0]]; !ok {
			order = append(order, kv[0])
		}
		m[kv[0]] = kv[1]
	}
	var ps []ref.Pair
	for _, k := range order {
		ps = append(ps, ref.Pair{Key: k, Value: m[k]})
	}
	return ref.EncodeMetadataProto(ps)
}

func runC02Cli(c c02CliCase) (r pbt.Result) {
	var rpcs []sim.RPC
	for _, p := range c.RPCs {
		h := sim.Prog{Steps: []sim.Step{{Op: "recv"}, {Op: "send", Size: p.ReqSize}, {Op: "drain"}, {Op: "ret"}}}
		if p.HErr {
			h = sim.Prog{Steps: []sim.Step{{Op: "recv"}, {Op: "reterr"}}}
		}
		rpcs = append(rpcs, sim.RPC{Handler: h})
	}
	w := sim.NewWorld(c.Cfg, rpcs)
	defer w.Drain()
	fail := func(f string, a ...any) {
		r.Fail = fmt.Sprintf(f, a...)
		r.Detail = fmt.Sprintf("case=%+v\n", c) + w.Dump()
	}
	choices := append([]int(nil), c.Choices...)
	c2s := w.A.Out()
	sid := uint64(0)
	stale, abandoned := false, false
	prevMid := uint64(0)
	for k, p := range c.RPCs {
		// late packets of the previous stream (the client kept talking after the handler ended it)
		var b []byte
		mid := prevMid + 1
		for _, sp := range p.Stale {
			var data []byte
			switch sp.Kind {
			case 2:
				data = sim.MakePayload(uint32(k-1)<<8, 'c', 50+uint32(mid), sp.Size)
			case 3:
				data = marshalErr(7, "late client error")
			}
			b = append(b, packetFrames(sid, mid, sp.Kind, sp.Control, data, sp.Frames)...)
			mid++
			stale = true
		}
		sid++
		if p.Abandoned {
			b = append(b, packetFrames(sid, 1, 7, false, encodeMeta(p.AbMeta), 1)...)
			sid++
			abandoned = true
		}
		m := uint64(1)
		if len(p.Meta) > 0 {
			b = append(b, packetFrames(sid, m, 7, false, encodeMeta(p.Meta), 1)...)
			m++
		}
		b = append(b, packetFrames(sid, m, 1, false, []byte(fmt.Sprintf("rpc%d", k)), 1)...)
		m++
		b = append(b, packetFrames(sid, m, 2, false, sim.MakePayload(uint32(k)<<8, 'c', 0, p.ReqSize), 2)...)
		m++
		b = append(b, packetFrames(sid, m, 6, false, nil, 1)...)
		prevMid = m
		c2s.Inject(b)
		w.Trace = append(w.Trace, fmt.Sprintf("peer.call%d", k))
		// run until the handler of this call has returned and the server's bytes are out
		for steps := 0; steps < 200; steps++ {
			if _, ok := w.Step(take(&choices), sim.Filter{}); !ok {
				break
			}
		}
		w.Flush(sim.Filter{Coarse: true})
		if w.HStarted[fmt.Sprintf("rpc%d", k)] != 1 {
			fail("a call placed by a conforming client did not reach its handler exactly once")
			r.Detailf("rpc %d started %d times; server done=%v", k, w.HStarted[fmt.Sprintf("rpc%d", k)], w.ServerDone())
			return
		}
		// metadata: exactly what was attached to this invoke
		want := map[string]string{}
		for _, kv := range p.Meta {
			want[kv[0]] = kv[1]
		}
		got := w.HMeta[k]
		if len(got) != len(want) {
			fail("handler saw metadata that was not attached to its call")
			r.Detailf("rpc %d got %q want %q", k, got, want)
			return
		}
		for kk, v := range want {
			if gv, ok := got[kk]; !ok || gv != v {
				fail("handler saw metadata that was not attached to its call")
				r.Detailf("rpc %d got %q want %q", k, got, want)
				return
			}
		}
	}
	if v := w.Violations(); len(v) > 0 {
		fail("%s", v[0])
		return
	}
	if !w.HandlersBalanced() {
		fail("a handler did not return")
		return
	}
	// what the server wrote: per stream, exactly the echo (or the error) of that stream's own call
	log := parseWire(w.B.Out().AcceptedBytes())
	if log.Problem != "" {
		fail("server wrote an invalid frame stream: %s", log.Problem)
		return
	}
	for k, p := range c.RPCs {
		_, echoed := log.MsgEnd[fmt.Sprintf("%d/s/0", uint32(k)<<8)]
		if echoed == p.HErr {
			fail("server response does not match the outcome of the call it belongs to")
			r.Detailf("rpc %d herr=%v echoed=%v", k, p.HErr, echoed)
			return
		}
	}
	if stale {
		r.Label("stale_packets_sent")
	}
	if abandoned {
		r.Label("abandoned_call_before")
	}
	r.NonTrivial = stale || abandoned
	r.Key = strings.Join(w.Trace, ",") + fmt.Sprintf("|%+v", c.RPCs)
	r.Sample = map[string]any{"rpcs": c.RPCs, "trace": clipTrace(w.Trace)}
	return
}

func TestC02StaleFromClient(t *testing.T) {
	pbt.Check(t, pbt.Prop[c02CliCase]{ID: "C02", Name: "stale_from_client", Gen: genC02Cli, Run: runC02Cli})
}
