package conn

import (
	"fmt"
	"strings"
	"sync"
	"testing"

	"pgregory.net/rapid"

	"verif/pbt"
	"verif/sim"
)

type c12Case struct {
	Cfg     sim.Config
	RPCs    []sim.RPC
	Choices []int
	CloseAt int
	// Closer: conn_close, conn_close_twice (two goroutines at once), server_cancel, both,
	// conn_close_and_read_error (Close racing a failing transport read)
	Closer     string
	Concurrent bool
	Stall      int
	// HoldPre: goroutines that reach one of the chosen scheduling points stay there until the close has
	// been issued (the close lands in the middle of whatever they were doing)
	HoldPre bool
	// Inject: a peer that talks out of turn: just before the close a message for the newest client stream
	// arrives, whether or not the server was ever asked for it
	Inject bool
	// BadMeta: just before the close the client side of the wire carries an invoke-metadata packet that does not
	// decode (a peer talking nonsense): the server gives up the connection, and its own teardown must complete
	BadMeta bool
}

func genC12(t *rapid.T) c12Case {
	c := c12Case{Cfg: genCfg(t)}
	var excl string
	n := rapid.IntRange(0, 2).Draw(t, "nrpcs")
	for i := 0; i < n; i++ {
		c.RPCs = append(c.RPCs, genRPC06(t, &excl))
	}
	c.CloseAt = rapid.IntRange(0, 40).Draw(t, "closeAt")
	c.Closer = rapid.SampledFrom([]string{"conn_close", "conn_close_twice", "server_cancel", "both", "conn_close_and_read_error"}).Draw(t, "closer")
	c.Concurrent = rapid.Bool().Draw(t, "concurrent")
	c.Stall = rapid.IntRange(0, 2).Draw(t, "stall")
	if rapid.IntRange(0, 2).Draw(t, "points") == 0 {
		c.Cfg.Points = rapid.SliceOfNDistinct(rapid.SampledFrom([]string{"manager.terminate.beforeClose", "stream.Cancel.beforeLock", "stream.checkFinished", "manager.manageReader.beforeDispatch",
			"harness.Unmarshal.holding", "stream.rawWrite.beforeFrame", "stream.Close.beforeWriteLock", "manager.newStream.beforeSet", "manager.acquireSemaphore.acquired", "manager.newStream.afterPublish", "manager.manageStream.enter", "harness.transport.closing", "harness.transport.closing"}), 1, 3, func(s string) string { return s }).Draw(t, "pts")
		c.Cfg.PointLimit = 8
		c.HoldPre = rapid.Bool().Draw(t, "holdpre")
		c.Inject = rapid.Bool().Draw(t, "inject")
	}
	c.BadMeta = rapid.IntRange(0, 5).Draw(t, "badmeta") == 0
	if c.Inject {
		// a message nobody receives keeps the reader inside the stream's packet buffer until the stream is closed
		// (the root of known findings F5/F19): with a peer talking out of turn every call ends with Close
		for i := range c.RPCs {
			c.RPCs[i].NoFinalClose = false
		}
	}
	c.Choices = rapid.SliceOfN(rapid.SampledFrom(c04Kinds), 0, 60).Draw(t, "choices")
	return c
}

func runC12(c c12Case) (r pbt.Result) {
	w := sim.NewWorld(c.Cfg, c.RPCs)
	defer w.Drain()
	fail := func(f string, a ...any) {
		r.Fail = fmt.Sprintf(f, a...)
		r.Detail = fmt.Sprintf("closer=%s closeAt=%d\n", c.Closer, c.CloseAt) + w.Dump()
	}
	choices := append([]int(nil), c.Choices...)
	pre := sim.Filter{NoC2S: c.Stall >= 1, NoS2C: c.Stall == 2, Hold: func(string) bool { return c.HoldPre }}
	started := 0
	startNext := func() {
		if started < len(c.RPCs) {
			w.StartClient(started)
			started++
		}
	}
	if c.Concurrent {
		for range c.RPCs {
			startNext()
		}
	} else {
		startNext()
	}
	for i := 0; i < c.CloseAt; i++ {
		if !c.Concurrent && started > 0 && started < len(c.RPCs) && w.Done(fmt.Sprintf("c%d", started-1)) {
			startNext()
		}
		if _, ok := w.Step(take(&choices), pre); !ok {
			break
		}
	}
	w.Quiesce()
	injected := false
	if s2c := w.B.Out(); c.Inject && started > 0 && s2c.Queued() == 0 && !s2c.CanAccept() {
		// frame boundary: nothing of the real server is in flight
		s2c.Inject(packetFramesOpt(uint64(started), 1, 2, false, sim.MakePayload(uint32(started-1)<<8, 's', 0, 3), 1, false))
		s2c.Deliver(0)
		w.Quiesce()
		injected = true
	}
	if c2s := w.A.Out(); c.BadMeta && c2s.Queued() == 0 && !c2s.CanAccept() {
		// frame boundary on the client->server direction: a metadata packet for the next stream id whose body is
		// not a metadata encoding
		c2s.Inject(packetFramesOpt(uint64(started+1), 1, 7, false, []byte{0xff, 0xff, 0xff}, 1, false))
		c2s.Deliver(0)
		w.Quiesce()
		injected = true
	}
	inFlight := w.InCall("c")
	hInFlight := w.InCall("h")
	writeParked := w.A.Out().CanAccept() || w.B.Out().CanAccept()
	// contexts of the streams that are active on the client
	type sctx struct {
		k    int
		done <-chan struct{}
	}
	var ctxs []sctx
	for k := range c.RPCs {
		if st := w.Stream(k); st != nil {
			ctxs = append(ctxs, sctx{k, st.Context().Done()})
		}
	}
	var hctxs []sctx
	for k := range c.RPCs {
		if st := w.HandlerStream(k); st != nil {
			hctxs = append(hctxs, sctx{k, st.Context().Done()})
		}
	}
	closeClock := w.Clock
	clientClosed := false
	// every Close call, when it returns, must find the transport closed already
	var closeMu sync.Mutex
	closesAtReturn := []int{}
	closeAndLook := func() error {
		err := w.Conn.Close()
		closeMu.Lock()
		closesAtReturn = append(closesAtReturn, w.A.ClosesDone())
		closeMu.Unlock()
		return err
	}
	switch c.Closer {
	case "conn_close":
		w.GoCall("closer1", "connclose", -1, closeAndLook)
		clientClosed = true
	case "conn_close_twice":
		w.GoCall("closer1", "connclose", -1, closeAndLook)
		w.GoCall("closer2", "connclose", -1, closeAndLook)
		clientClosed = true
	case "server_cancel":
		w.CancelServer()
	case "both":
		w.GoCall("closer1", "connclose", -1, w.Conn.Close)
		w.CancelServer()
		clientClosed = true
	case "conn_close_and_read_error":
		w.GoCall("closer1", "connclose", -1, w.Conn.Close)
		w.GoCall("breaker", "readerror", -1, func() error { w.A.Fail(true); return nil })
		clientClosed = true
	}
	w.Trace = append(w.Trace, "CLOSE:"+c.Closer)
	// no cooperation from the transport: only grants and point releases
	frozen := sim.Filter{NoTransport: true}
	if c.Cfg.Soft && pbt.Excluded("F13") && (c.Closer == "server_cancel" || c.Closer == "both") {
		// known finding F13 (see C04): with SoftCancel a cancelled context first tries to send a cancel packet,
		// which needs the transport to accept bytes; excluded by letting it accept (never deliver) them.
		frozen.S2CAcceptOnly = true
		r.Excluded = "F13"
	}
	slowClose := false
	for _, p := range c.Cfg.Points {
		slowClose = slowClose || p == "harness.transport.closing"
	}
	if slowClose && clientClosed {
		// first with the transport's own Close still in progress (it has let go of the pending I/O): whoever is told
		// by a failing call that the connection is closed must find Closed() signalled as well
		held := frozen
		held.Hold = func(p string) bool { return p == "harness.transport.closing" }
		for i := 0; i < 300; i++ {
			if _, ok := w.Step(take(&choices), held); !ok {
				break
			}
		}
		w.Quiesce()
		closing := false
		for _, a := range w.Points.Parked() {
			closing = closing || a.Name == "harness.transport.closing"
		}
		if closing && !w.Closed() {
			for _, op := range w.OpsSnapshot() {
				if strings.HasPrefix(op.Actor, "c") && op.Op != "connclose" && op.End > closeClock && op.Err != nil {
					fail("a call failed because the connection is closing, but Closed() is not signalled yet")
					r.Detailf("%s %s: %v", op.Actor, op.Op, op.Err)
					return
				}
			}
		}
		if closing {
			r.Label("transport_close_in_progress")
		}
	}
	for i := 0; i < 2000; i++ {
		if _, ok := w.Step(take(&choices), frozen); !ok {
			break
		}
	}
	w.Quiesce()
	if clientClosed {
		for _, n := range []string{"closer1", "closer2"} {
			if a := w.Actor(n); a != nil && !w.Done(n) {
				fail("Conn.Close did not return although the transport let go of its pending I/O")
				return
			}
		}
		closeMu.Lock()
		for _, n := range closesAtReturn {
			if n == 0 {
				closeMu.Unlock()
				fail("a Close call returned before the transport's Close had returned")
				return
			}
		}
		closeMu.Unlock()
		if still := w.InCall("c"); len(still) > 0 {
			fail("client calls still blocked after the connection was closed")
			r.Detailf("%v", still)
			return
		}
		if !w.Closed() {
			fail("Closed() not signalled after Close returned")
			return
		}
		want := 1
		if c.Closer == "conn_close_and_read_error" {
			want = 1 // the injected failure is not a Close call
		}
		if got := w.A.Closes(); got != want {
			fail("client transport was not closed exactly once")
			r.Detailf("Close called %d times", got)
			return
		}
		for _, sc := range ctxs {
			select {
			case <-sc.done:
			default:
				fail("context of an active client stream was not cancelled by Close")
				r.Detailf("rpc %d", sc.k)
				return
			}
		}
	}
	if c.Closer == "server_cancel" || c.Closer == "both" {
		if !w.ServerDone() {
			fail("ServeOne did not return after its context was cancelled")
			return
		}
		if still := w.InCall("h"); len(still) > 0 {
			fail("handler calls still blocked after the serving context was cancelled")
			return
		}
		if got := w.B.Closes(); got != 1 {
			fail("server transport was not closed exactly once")
			r.Detailf("Close called %d times", got)
			return
		}
		for _, sc := range hctxs {
			select {
			case <-sc.done:
			default:
				fail("context of an active server stream was not cancelled")
				return
			}
		}
	}
	// calls started after the close fail
	for _, op := range w.OpsSnapshot() {
		if op.Op == "connclose" && op.End > closeClock {
			closeClock = op.End
		}
	}
	for _, op := range w.OpsSnapshot() {
		if op.Start > closeClock+4 && op.Err == nil && (op.Op == "send" || op.Op == "invoke" || op.Op == "newstream") {
			client := strings.HasPrefix(op.Actor, "c")
			if (client && clientClosed) || (!client && (c.Closer == "server_cancel" || c.Closer == "both")) {
				fail("a %s issued after Close returned nil", op.Op)
				r.Detailf("%s", op.Actor)
				return
			}
		}
	}
	// the transport moves again: the other side notices, everything is released
	w.Flush(sim.Filter{Coarse: true})
	w.Quiesce()
	if still := w.InCall(""); len(still) > 0 {
		fail("calls still blocked after the peer learnt about the close")
		r.Detailf("%v", still)
		return
	}
	if !w.ServerDone() {
		fail("server side did not shut down after the client closed")
		return
	}
	if !w.Closed() {
		fail("client side did not report closed after the server went away")
		return
	}
	if w.A.Closes() != 1 || w.B.Closes() != 1 {
		fail("each transport must be closed exactly once")
		r.Detailf("client %d server %d", w.A.Closes(), w.B.Closes())
		return
	}
	if leaks := w.Leaks(sim.Snapshot()); len(leaks) > 0 {
		fail("library goroutines left behind after closing")
		for _, g := range leaks {
			r.Detailf("%s\n", g.Frames)
		}
		return
	}
	if v := w.Violations(); len(v) > 0 && !injected {
		fail("%s", v[0])
		return
	}
	if injected {
		r.Label("peer_message_out_of_turn")
	}
	if c.BadMeta {
		r.Label("peer_sent_undecodable_metadata")
	}
	r.Label("closer_" + c.Closer)
	if len(inFlight) > 0 {
		r.Label("client_ops_in_flight")
	}
	if len(hInFlight) > 0 {
		r.Label("handler_ops_in_flight")
	}
	if writeParked {
		r.Label("write_parked_in_transport")
	}
	if len(c.RPCs) == 0 || (len(inFlight) == 0 && len(hInFlight) == 0) {
		r.Label("idle")
	}
	if len(c.Cfg.Points) > 0 {
		r.Label("points")
	}
	if c.HoldPre {
		r.Label("held_at_points_until_close")
	}
	r.NonTrivial = len(inFlight)+len(hInFlight) > 0
	r.Key = strings.Join(w.Trace, ",") + fmt.Sprintf("|%+v|%+v", c.Cfg, c.RPCs)
	r.Sample = map[string]any{"cfg": c.Cfg, "rpcs": c.RPCs, "closer": c.Closer, "in_flight": inFlight, "handlers_in_flight": hInFlight, "trace": clipTrace(w.Trace)}
	return
}

func TestC12Close(t *testing.T) {
	pbt.Check(t, pbt.Prop[c12Case]{ID: "C12", Name: "close", Gen: genC12, Run: runC12})
}
