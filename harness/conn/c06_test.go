package conn

import (
	"fmt"
	"strings"
	"testing"

	"pgregory.net/rapid"

	"verif/pbt"
	"verif/sim"
)

type c06Case struct {
	Cfg     sim.Config
	RPCs    []sim.RPC
	Choices []int
}

var clientStepGen = rapid.Custom(func(t *rapid.T) sim.Step {
	return sim.Step{Op: rapid.SampledFrom([]string{"send", "recv", "closesend", "close", "cancel", "send", "recv"}).Draw(t, "cop"), Size: sizeGen.Draw(t, "csize")}
})
var handlerStepGen = rapid.Custom(func(t *rapid.T) sim.Step {
	return sim.Step{Op: rapid.SampledFrom([]string{"recv", "send"}).Draw(t, "hop"), Size: sizeGen.Draw(t, "hsize")}
})

// genRPC06 draws independent client and handler programs. Exclusions by construction:
// F5 (handler returns nil without draining what the client still sends) -> a drain step is
// inserted before "ret".
func genRPC06(t *rapid.T, excl *string) sim.RPC {
	var p sim.RPC
	p.Unary = rapid.IntRange(0, 3).Draw(t, "shape") == 3
	p.ReqSize = sizeGen.Draw(t, "usize")
	if p.Unary {
		if rapid.Bool().Draw(t, "ucancel") {
			p.CSubs = []sim.Prog{{Steps: []sim.Step{{Op: "cancel"}}}}
		}
		p.Handler.Steps = []sim.Step{{Op: "recv"}}
		if rapid.IntRange(0, 3).Draw(t, "hsend") > 0 {
			p.Handler.Steps = append(p.Handler.Steps, sim.Step{Op: "send", Size: sizeGen.Draw(t, "hsize")})
		}
	} else {
		p.Client.Steps = rapid.SliceOfN(clientStepGen, 0, 6).Draw(t, "csteps")
		p.Handler.Steps = rapid.SliceOfN(handlerStepGen, 0, 5).Draw(t, "hsteps")
	}
	if rapid.IntRange(0, 2).Draw(t, "hreterr") == 0 {
		p.Handler.Steps = append(p.Handler.Steps, sim.Step{Op: "reterr"})
	} else {
		if pbt.Excluded("F5") {
			*excl = "F5"
			p.Handler.Steps = append(p.Handler.Steps, sim.Step{Op: "drain"})
		}
		p.Handler.Steps = append(p.Handler.Steps, sim.Step{Op: "ret"})
	}
	return p
}

func genC06(t *rapid.T) c06Case {
	c := c06Case{Cfg: genCfg(t)}
	var excl string
	n := rapid.IntRange(1, 3).Draw(t, "nrpcs")
	for i := 0; i < n; i++ {
		c.RPCs = append(c.RPCs, genRPC06(t, &excl))
	}
	if rapid.IntRange(0, 2).Draw(t, "points") == 0 {
		c.Cfg.Points = []string{"conn.NewStream.afterNewClientStream", "conn.Invoke.afterNewClientStream"}
	}
	c.Choices = genChoices(t, 300)
	return c
}

func runC06(c c06Case) (r pbt.Result) {
	w := sim.NewWorld(c.Cfg, c.RPCs)
	defer func() {
		if leaks := w.Drain(); len(leaks) > 0 && r.Fail == "" {
			r.Detailf("note: %d drpc goroutines alive after teardown", len(leaks))
		}
	}()
	fail := func(f string, a ...any) {
		r.Fail = fmt.Sprintf(f, a...)
		r.Detail = w.Dump()
	}
	choices := append([]int(nil), c.Choices...)
	steps, forced := 0, 0
	undelivered := false
	for k := range c.RPCs {
		w.StartClient(k)
		name := fmt.Sprintf("c%d", k)
		for steps < 300 {
			w.Quiesce()
			if w.Done(name) {
				break
			}
			if _, ok := w.Step(take(&choices), sim.Filter{}); !ok {
				break
			}
			steps++
		}
		if w.A.Out().Queued() > 0 || w.B.Out().Queued() > 0 || w.A.Out().CanAccept() || w.B.Out().CanAccept() {
			undelivered = true
		}
		w.Flush(sim.Filter{Coarse: true})
		if !w.Done(name) || len(w.InCall(fmt.Sprintf("c%d.", k))) > 0 {
			// application-level stall (client and handler programs wait for each other): end the RPC
			// the way an application may, by closing the stream from another goroutine.
			forced++
			if st := w.Stream(k); st != nil {
				w.GoCall(fmt.Sprintf("x%d", k), "forceclose", k, st.Close)
			} else {
				w.CancelRPC(k)
			}
			w.Flush(sim.Filter{Coarse: true})
		}
	}
	w.Flush(sim.Filter{Coarse: true})
	if v := w.Violations(); len(v) > 0 {
		fail("%s", v[0])
		return
	}
	premise := w.HandlersBalanced()
	for k := range c.RPCs {
		if !w.Done(fmt.Sprintf("c%d", k)) {
			premise = false
		}
	}
	early, softCancel, herr := false, false, false
	for _, rp := range c.RPCs {
		for _, s := range rp.Client.Steps {
			if s.Op == "cancel" && c.Cfg.Soft {
				softCancel = true
			}
			if s.Op == "close" {
				early = true
			}
		}
		if len(rp.CSubs) > 0 && c.Cfg.Soft {
			softCancel = true
		}
		for _, s := range rp.Handler.Steps {
			if s.Op == "reterr" {
				herr = true
			}
		}
	}
	switch {
	case w.Closed():
		r.Label("trivial_conn_closed")
	case !premise:
		r.Label("trivial_premise_unmet")
	default:
		r.Label("probed")
		w.StartProbe()
		w.Flush(sim.Filter{Coarse: true})
		if !w.ProbeOK {
			if w.Closed() {
				// the connection reported itself closed while the probe ran: allowed ("usable or reports closed")
				r.Label("closed_during_probe")
			} else {
				fail("probe RPC did not complete on a connection whose RPCs have all ended")
				r.Detailf("probe err=%v", w.ProbeErr)
				return
			}
		}
		r.NonTrivial = undelivered || early || softCancel || herr || forced > 0
	}
	if forced > 0 {
		r.Label("forced_close")
	}
	if softCancel {
		r.Label("soft_cancel")
	}
	if undelivered {
		r.Label("undelivered_bytes_at_end_of_rpc")
	}
	if len(c.Cfg.Points) > 0 {
		r.Label("points")
	}
	if v := w.Violations(); len(v) > 0 {
		fail("%s", v[0])
		return
	}
	r.Key = strings.Join(w.Trace, ",") + fmt.Sprintf("|%+v|%+v", c.Cfg, c.RPCs)
	r.Sample = map[string]any{"cfg": c.Cfg, "rpcs": c.RPCs, "trace": clipTrace(w.Trace)}
	return
}

func clipTrace(t []string) []string {
	if len(t) > 60 {
		return append(append([]string(nil), t[:60]...), "...")
	}
	return t
}

func TestC06Probe(t *testing.T) {
	pbt.Check(t, pbt.Prop[c06Case]{ID: "C06", Name: "probe", Gen: genC06, Run: func(c c06Case) pbt.Result {
		r := runC06(c)
		if pbt.Excluded("F5") {
			r.Excluded = "F5"
		}
		return r
	}})
}
