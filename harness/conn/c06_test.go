package conn

import (
	"fmt"
	"strings"
	"testing"

	"pgregory.net/rapid"

	"verif/pbt"
	"verif/sim"
)

type c06Case struct {
	Cfg     sim.Config
	RPCs    []sim.RPC
	Choices []int
	// Concurrent: all client calls are issued up front from separate goroutines (they queue on
	// the connection) instead of one after the other.
	Concurrent bool
	// a window of director steps during which one direction of the transport is stalled
	// (the peer is slow to drain): 0 none, 1 client->server, 2 server->client.
	StallDir, StallFrom, StallLen int
}

var clientStepGen = rapid.Custom(func(t *rapid.T) sim.Step {
	return sim.Step{Op: rapid.SampledFrom([]string{"send", "recv", "closesend", "close", "cancel", "send", "recv", "send", "recv", "recvbad", "drain", "sendbad", "flush"}).Draw(t, "cop"), Size: sizeGen.Draw(t, "csize")}
})
var handlerStepGen = rapid.Custom(func(t *rapid.T) sim.Step {
	return sim.Step{Op: rapid.SampledFrom([]string{"recv", "send", "recv", "send", "recv", "send", "recvbad", "sendbad", "flush"}).Draw(t, "hop"), Size: sizeGen.Draw(t, "hsize")}
})

// genRPC06 draws independent client and handler programs. Exclusions by construction:
// F5 (handler returns nil without draining what the client still sends) -> a drain step is
// inserted before "ret".
func genRPC06(t *rapid.T, excl *string) sim.RPC {
	var p sim.RPC
	readFirst := false
	p.Unary = rapid.IntRange(0, 2).Draw(t, "shape") == 2
	p.ReqSize = sizeGen.Draw(t, "usize")
	if p.Unary {
		if rapid.Bool().Draw(t, "ucancel") {
			p.CSubs = []sim.Prog{{Steps: []sim.Step{{Op: "cancel"}}}}
		}
		p.Handler.Steps = []sim.Step{{Op: "recv"}}
		if k := rapid.IntRange(0, 5).Draw(t, "hnorecv"); k == 0 {
			p.Handler.Steps = []sim.Step{{Op: "recvbad"}}
		} else if k <= 2 {
			p.Handler.Steps = nil // fails (or, with the drain inserted below, answers) without reading the request first
			p.ReqSize = rapid.SampledFrom([]int{100, 300, 1000}).Draw(t, "bigreq")
		}
		if rapid.IntRange(0, 3).Draw(t, "hsend") > 0 {
			p.Handler.Steps = append(p.Handler.Steps, sim.Step{Op: "send", Size: sizeGen.Draw(t, "hsize")})
		}
		// a request the application's encoding cannot marshal: Invoke fails after the stream was created
		p.BadRequest = rapid.IntRange(0, 7).Draw(t, "badreq") == 0
		// or a response the encoding cannot unmarshal: Invoke fails after the handler answered
		p.BadResponse = !p.BadRequest && rapid.IntRange(0, 7).Draw(t, "badresp") == 0
	} else {
		p.Client.Steps = rapid.SliceOfN(clientStepGen, 0, 6).Draw(t, "csteps")
		p.Handler.Steps = rapid.SliceOfN(handlerStepGen, 0, 5).Draw(t, "hsteps")
	}
	if !p.Unary && rapid.IntRange(0, 3).Draw(t, "halfclose_only") == 0 {
		// the way generated client-streaming stubs end a call: half-close, read to the end, never Close. Once both
		// sides have half-closed (or the handler failed) the stream is over all the same
		if rapid.Bool().Draw(t, "readfirst") {
			// a client that sends nothing, reads to the end (the handler's half-close arrives first) and only then half-closes
			p.Client.Steps = []sim.Step{{Op: "drain"}, {Op: "closesend"}}
			p.Handler.Steps = rapid.SliceOfN(rapid.Custom(func(t *rapid.T) sim.Step { return sim.Step{Op: "send", Size: sizeGen.Draw(t, "hsz")} }), 0, 3).Draw(t, "hsends")
			readFirst = true
		} else {
			p.Client.Steps = append(p.Client.Steps, sim.Step{Op: "closesend"}, sim.Step{Op: "drain"})
		}
		p.NoFinalClose = true
	}
	// call metadata: one more packet ahead of the invoke, and one more place for a cancel to land
	if rapid.IntRange(0, 2).Draw(t, "meta") == 0 {
		p.Meta = [][2]string{{"k", rapid.StringMatching("[a-z]{0,6}").Draw(t, "mv")}}
	}
	// the application's `defer cancel()`: the call's context is cancelled once the call is over
	switch rapid.IntRange(0, 3).Draw(t, "cancelwhendone") {
	case 1:
		p.CancelWhenDone = true
	case 2:
		p.CancelImmediately = true
	}
	if rapid.IntRange(0, 2).Draw(t, "hreterr") == 0 {
		p.Handler.Steps = append(p.Handler.Steps, sim.Step{Op: "reterr"})
	} else {
		if pbt.Excluded("F5") && !readFirst {
			// (a client that sends nothing leaves nothing unread: there the handler may return at once)
			*excl = "F5"
			p.Handler.Steps = append(p.Handler.Steps, sim.Step{Op: "drain"})
		}
		p.Handler.Steps = append(p.Handler.Steps, sim.Step{Op: "ret"})
	}
	return p
}

func genC06(t *rapid.T) c06Case {
	c := c06Case{Cfg: genCfg(t)}
	var excl string
	n := rapid.IntRange(1, 3).Draw(t, "nrpcs")
	for i := 0; i < n; i++ {
		c.RPCs = append(c.RPCs, genRPC06(t, &excl))
	}
	switch rapid.IntRange(0, 4).Draw(t, "points") {
	case 2:
		// a sender is slow between writing its message into the frame writer and flushing it: the call may be
		// ended by the peer in between, and what was written stays behind in the connection's writer
		c.Cfg.Points = []string{"stream.MsgSend.beforeFlush"}
		c.Cfg.PointLimit = 6
	case 0:
		c.Cfg.Points = []string{"conn.NewStream.afterNewClientStream", "conn.Invoke.afterNewClientStream", "conn.afterMetadata"}
	case 1:
		// the goroutine that watches a stream's context is late: the call can be over, and its context
		// cancelled, before that goroutine looks at either
		c.Cfg.Points = []string{"manager.manageStream.enter"}
	}
	c.Concurrent = rapid.IntRange(0, 2).Draw(t, "concurrent") == 0
	c.StallDir = rapid.IntRange(0, 2).Draw(t, "stalldir")
	c.StallFrom = rapid.IntRange(0, 8).Draw(t, "stallfrom")
	c.StallLen = rapid.IntRange(1, 40).Draw(t, "stalllen")
	c.Choices = rapid.SliceOfN(rapid.SampledFrom(c04Kinds), 0, 300).Draw(t, "choices")
	return c
}

// execPrograms runs the generated client/handler programs of a case under its drawn schedule
// and leaves the world flushed. It is shared by the C06 and C02 oracles.
// forcedRPCs lists the calls that execPrograms had to end from outside (see finish).
var forcedRPCs map[int]bool

func execPrograms(c c06Case) (w *sim.World, forced int, undelivered bool) {
	forcedRPCs = map[int]bool{}
	w = sim.NewWorld(c.Cfg, c.RPCs)
	choices := append([]int(nil), c.Choices...)
	steps := 0
	finish := func(k int) {
		name := fmt.Sprintf("c%d", k)
		if w.A.Out().Queued() > 0 || w.B.Out().Queued() > 0 || w.A.Out().CanAccept() || w.B.Out().CanAccept() {
			undelivered = true
		}
		w.Flush(sim.Filter{Coarse: true})
		if !w.Done(name) || len(w.InCall(fmt.Sprintf("c%d.", k))) > 0 {
			// application-level stall (client and handler programs wait for each other): end the RPC
			// the way an application may, by closing the stream from another goroutine.
			forced++
			forcedRPCs[k] = true
			if st := w.Stream(k); st != nil {
				w.GoCall(fmt.Sprintf("x%d", k), "forceclose", k, st.Close)
			} else {
				w.CancelRPC(k)
			}
			w.Flush(sim.Filter{Coarse: true})
		}
	}
	// the stall starts once StallFrom transport actions happened in the stalled direction and lasts StallLen steps
	dirActs, stallStart := 0, -1
	filt := func() sim.Filter {
		if stallStart < 0 && dirActs >= c.StallFrom {
			stallStart = steps
		}
		in := stallStart >= 0 && steps < stallStart+c.StallLen
		return sim.Filter{NoC2S: in && c.StallDir == 1, NoS2C: in && c.StallDir == 2}
	}
	note := func(name string) {
		if (c.StallDir == 1 && strings.HasPrefix(name, "c2s.")) || (c.StallDir == 2 && strings.HasPrefix(name, "s2c.")) {
			dirActs++
		}
	}
	if c.Concurrent {
		for k := range c.RPCs {
			w.StartClient(k)
		}
		for steps < 300 {
			name, ok := w.Step(take(&choices), filt())
			if !ok {
				break
			}
			note(name)
			steps++
		}
		for k := range c.RPCs {
			finish(k)
		}
	} else {
		for k := range c.RPCs {
			w.StartClient(k)
			name := fmt.Sprintf("c%d", k)
			for steps < 300 {
				w.Quiesce()
				if w.Done(name) {
					break
				}
				name, ok := w.Step(take(&choices), filt())
				if !ok {
					break
				}
				note(name)
				steps++
			}
			finish(k)
		}
	}
	w.Flush(sim.Filter{Coarse: true})
	return
}

func runC06(c c06Case) (r pbt.Result) {
	w, forced, undelivered := execPrograms(c)
	defer func() {
		if leaks := w.Drain(); len(leaks) > 0 && r.Fail == "" {
			r.Detailf("note: %d drpc goroutines alive after teardown", len(leaks))
		}
	}()
	fail := func(f string, a ...any) {
		r.Fail = fmt.Sprintf(f, a...)
		r.Detail = w.Dump()
	}
	w.Flush(sim.Filter{Coarse: true})
	if v := w.Violations(); len(v) > 0 {
		fail("%s", v[0])
		return
	}
	premise := w.HandlersBalanced()
	for k := range c.RPCs {
		if !w.Done(fmt.Sprintf("c%d", k)) {
			premise = false
		}
	}
	early, softCancel, herr, badreq := false, false, false, false
	for _, rp := range c.RPCs {
		if rp.BadRequest || rp.BadResponse {
			badreq = true
		}
		for _, s := range rp.Client.Steps {
			if s.Op == "cancel" && c.Cfg.Soft {
				softCancel = true
			}
			if s.Op == "close" {
				early = true
			}
		}
		if len(rp.CSubs) > 0 && c.Cfg.Soft {
			softCancel = true
		}
		for _, s := range rp.Handler.Steps {
			if s.Op == "reterr" {
				herr = true
			}
		}
	}
	switch {
	case w.Closed():
		r.Label("trivial_conn_closed")
	case !premise:
		r.Label("trivial_premise_unmet")
	default:
		r.Label("probed")
		w.StartProbe()
		w.Flush(sim.Filter{Coarse: true})
		if !w.ProbeOK {
			if w.Closed() {
				// the connection reported itself closed while the probe ran: allowed ("usable or reports closed")
				r.Label("closed_during_probe")
			} else {
				fail("probe RPC did not complete on a connection whose RPCs have all ended")
				r.Detailf("probe err=%v", w.ProbeErr)
				return
			}
		}
		r.NonTrivial = undelivered || early || softCancel || herr || forced > 0 || badreq
	}
	if badreq {
		r.Label("request_not_marshallable")
	}
	if forced > 0 {
		r.Label("forced_close")
	}
	if c.Concurrent {
		r.Label("concurrent_callers")
	}
	r.Label(fmt.Sprintf("stall_dir_%d", c.StallDir))
	if softCancel {
		r.Label("soft_cancel")
	}
	if undelivered {
		r.Label("undelivered_bytes_at_end_of_rpc")
	}
	if len(c.Cfg.Points) > 0 {
		r.Label("points")
	}
	if v := w.Violations(); len(v) > 0 {
		fail("%s", v[0])
		return
	}
	r.Key = strings.Join(w.Trace, ",") + fmt.Sprintf("|%+v|%+v", c.Cfg, c.RPCs)
	r.Sample = map[string]any{"cfg": c.Cfg, "rpcs": c.RPCs, "trace": clipTrace(w.Trace)}
	return
}

func clipTrace(t []string) []string {
	if len(t) > 60 {
		return append(append([]string(nil), t[:60]...), "...")
	}
	return t
}

func TestC06Probe(t *testing.T) {
	pbt.Check(t, pbt.Prop[c06Case]{ID: "C06", Name: "probe", Gen: genC06, Run: func(c c06Case) pbt.Result {
		r := runC06(c)
		if pbt.Excluded("F5") {
			r.Excluded = "F5"
		}
		return r
	}})
}
