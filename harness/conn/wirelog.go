package conn

import (
	"fmt"

	"verif/ref"
	"verif/sim"
)

// frameAt is a frame of the byte stream handed to a transport, with the offset just past it.
type frameAt struct {
	ref.Frame
	End int
}

type wireLog struct {
	Frames  []frameAt
	Trail   int            // bytes after the last whole frame
	MsgEnd  map[string]int // "<tag>/<dir>/<seq>" -> offset just past the done frame of that message
	Problem string         // first violation of the C07 frame-stream rules ("" = none)
}

// parseWire parses everything a transport accepted and checks the frame-stream rules of
// C07: whole well-formed frames, (stream, message) ids non-decreasing, one kind per id, no
// frame after the done frame of an id.
func parseWire(b []byte) (l wireLog) {
	l.MsgEnd = map[string]int{}
	type idKey struct{ s, m uint64 }
	var last idKey
	lastDone, lastKind, have := false, uint8(0), false
	cur := map[idKey][]byte{}
	off := 0
	for len(b) > 0 {
		fr, rem, cls := ref.ParseFrame(b)
		if cls == ref.Malformed {
			if l.Problem == "" {
				l.Problem = fmt.Sprintf("malformed frame at offset %d", off)
			}
			return
		}
		if cls == ref.NeedMore {
			l.Trail = len(b)
			return
		}
		off += len(b) - len(rem)
		b = rem
		fr.Data = append([]byte(nil), fr.Data...)
		l.Frames = append(l.Frames, frameAt{fr, off})
		id := idKey{fr.Stream, fr.Message}
		if have && l.Problem == "" {
			switch {
			case id.s < last.s || (id.s == last.s && id.m < last.m):
				l.Problem = fmt.Sprintf("frame id goes backwards: <%d,%d> after <%d,%d>", id.s, id.m, last.s, last.m)
			case id == last && lastDone:
				l.Problem = fmt.Sprintf("frame after the final frame of id <%d,%d>", id.s, id.m)
			case id == last && fr.Kind != lastKind:
				l.Problem = fmt.Sprintf("two kinds under one id <%d,%d>", id.s, id.m)
			}
		}
		if !have || id != last {
			delete(cur, last)
		}
		last, lastDone, lastKind, have = id, fr.Done, fr.Kind, true
		cur[id] = append(cur[id], fr.Data...)
		if fr.Done {
			if fr.Kind == 2 {
				if tag, dir, seq, ok := sim.PayloadInfo(cur[id]); ok {
					l.MsgEnd[fmt.Sprintf("%d/%c/%d", tag, dir, seq)] = off
				}
			}
			delete(cur, id)
		}
	}
	return
}
