package conn

import (
	"bytes"
	"context"
	"errors"
	"fmt"
	"io"
	"strings"
	"testing"

	"pgregory.net/rapid"
	"storj.io/drpc"
	"storj.io/drpc/drpcerr"
	"storj.io/drpc/drpcmux"

	"verif/gens"
	"verif/pbt"
	"verif/sim"
)

// ---- a hand-written service description with the four method shapes ----------------------

type msgT struct{ B []byte }

type msgEnc struct{}

func (msgEnc) Marshal(m drpc.Message) ([]byte, error) { return m.(*msgT).B, nil }
func (msgEnc) Unmarshal(b []byte, m drpc.Message) error {
	if len(b) > 0 && b[0] == 0xEE {
		return errors.New("verif: cannot decode request " + string(b[1:]))
	}
	m.(*msgT).B = append([]byte(nil), b...)
	return nil
}

// svcImpl behaves as the case says: it sends K messages (where the shape allows) and then fails
// with the case's error, or succeeds.
type svcImpl struct {
	k    int
	err  error
	both bool // a failing unary handler also returns a (to be ignored) response value
}

func (s *svcImpl) Unary(ctx context.Context, in *msgT) (*msgT, error) {
	if s.err != nil && s.both {
		return &msgT{B: []byte("partial")}, s.err
	}
	if s.err != nil {
		return nil, s.err
	}
	return &msgT{B: append([]byte("re:"), in.B...)}, nil
}

func (s *svcImpl) ServerStream(in *msgT, stream drpc.Stream) error {
	for i := 0; i < s.k; i++ {
		if err := stream.MsgSend(&msgT{B: []byte(fmt.Sprintf("m%d", i))}, msgEnc{}); err != nil {
			return err
		}
	}
	return s.err
}

func (s *svcImpl) ClientStream(stream drpc.Stream) error {
	var all []byte
	for {
		var m msgT
		err := stream.MsgRecv(&m, msgEnc{})
		if errors.Is(err, io.EOF) {
			break
		}
		if err != nil {
			return err
		}
		all = append(all, m.B...)
	}
	if s.err != nil {
		return s.err
	}
	return stream.MsgSend(&msgT{B: append([]byte("re:"), all...)}, msgEnc{})
}

func (s *svcImpl) Bidi(stream drpc.Stream) error {
	for i := 0; i < s.k; i++ {
		var m msgT
		if err := stream.MsgRecv(&m, msgEnc{}); err != nil {
			return err
		}
		if err := stream.MsgSend(&msgT{B: append([]byte("re:"), m.B...)}, msgEnc{}); err != nil {
			return err
		}
	}
	return s.err
}

type svcDesc struct{}

func (svcDesc) NumMethods() int { return 4 }
func (svcDesc) Method(n int) (string, drpc.Encoding, drpc.Receiver, interface{}, bool) {
	switch n {
	case 0:
		return "/svc/Unary", msgEnc{}, func(srv interface{}, ctx context.Context, in1, in2 interface{}) (drpc.Message, error) {
			return srv.(*svcImpl).Unary(ctx, in1.(*msgT))
		}, (*svcImpl).Unary, true
	case 1:
		return "/svc/ServerStream", msgEnc{}, func(srv interface{}, ctx context.Context, in1, in2 interface{}) (drpc.Message, error) {
			return nil, srv.(*svcImpl).ServerStream(in1.(*msgT), in2.(drpc.Stream))
		}, (*svcImpl).ServerStream, true
	case 2:
		return "/svc/ClientStream", msgEnc{}, func(srv interface{}, ctx context.Context, in1, in2 interface{}) (drpc.Message, error) {
			return nil, srv.(*svcImpl).ClientStream(in1.(drpc.Stream))
		}, (*svcImpl).ClientStream, true
	case 3:
		return "/svc/Bidi", msgEnc{}, func(srv interface{}, ctx context.Context, in1, in2 interface{}) (drpc.Message, error) {
			return nil, srv.(*svcImpl).Bidi(in1.(drpc.Stream))
		}, (*svcImpl).Bidi, true
	}
	return "", nil, nil, nil, false
}

type c10Case struct {
	Cfg     sim.Config
	Shape   int // 0 unary 1 server-stream 2 client-stream 3 bidi 4 unknown rpc 5 undecodable request
	K       int
	Err     *gens.ErrSpec
	Both    bool
	Choices []int
	// ReqSize: bytes appended to the request, so that with a small split size it travels in several frames and
	// the server's answer (in particular a dispatcher failure, sent as soon as the invoke is there) can arrive
	// while the client is still writing it
	ReqSize int
	// Early (bidi shape with a failing handler): the handler fails at once while the client, which cannot know yet,
	// keeps sending: one message flushed, a second one written (with ManualFlush it stays in the writer) - then it
	// receives. The receive must report the handler's error whatever is still sitting unsent in the writer.
	Early bool
	// RpcName (shape 4): the name the server does not know - any string a client cares to send ('%', quotes, NUL,
	// bytes that are not UTF-8): whatever text the dispatcher fails the call with has to reach the client unchanged.
	RpcName []byte
}

func genC10(t *rapid.T) c10Case {
	c := c10Case{Cfg: genCfg(t), Shape: rapid.SampledFrom([]int{0, 1, 2, 3, 0, 1, 3, 4, 5}).Draw(t, "shape"), K: rapid.IntRange(0, 4).Draw(t, "k")}
	if c.Shape <= 3 && rapid.IntRange(0, 4).Draw(t, "fails") > 0 {
		e := gens.GenErr(70000, false).Draw(t, "err")
		c.Err = &e
	}
	c.Both = rapid.Bool().Draw(t, "both")
	if c.Shape == 4 {
		c.RpcName = rapid.OneOf(
			rapid.SampledFrom([][]byte{[]byte("/svc/Nope"), []byte("/svc/Progress100%"), []byte("/a%sb%d"), []byte("%!d(MISSING)"), []byte("/svc/Unary "), []byte("/ünï/\"q\""), {0xff, '%', 'v', 0}}),
			rapid.SliceOfN(rapid.SampledFrom([]byte{'%', 's', 'd', 'v', '/', 'a', '"', '\\', 0, 0xc3, ' '}), 1, 12),
		).Draw(t, "rpcname")
	}
	c.Choices = genChoices(t, 120)
	c.ReqSize = rapid.SampledFrom([]int{0, 0, 30, 300}).Draw(t, "reqsize")
	if c.Shape == 3 && c.Err != nil && rapid.Bool().Draw(t, "early") {
		c.Early = true
		c.Cfg.ManualFlush = rapid.Bool().Draw(t, "manualflush")
		c.Cfg.Points = []string{"stream.MsgSend.beforeFlush"}
		c.Cfg.PointLimit = 4
		return c
	}
	if rapid.IntRange(0, 2).Draw(t, "points") == 0 {
		// the server is slow to report the failure: what the client sent meanwhile is already waiting in the stream
		c.Cfg.Points = []string{"stream.SendError.beforeWriteLock"}
		c.Cfg.PointLimit = 4
	}
	return c
}

// stubStream lets the harness ask the mux directly what a dispatcher failure looks like.
type stubStream struct{ req []byte }

func (stubStream) Context() context.Context                          { return context.Background() }
func (stubStream) MsgSend(msg drpc.Message, enc drpc.Encoding) error { return nil }
func (s stubStream) MsgRecv(msg drpc.Message, enc drpc.Encoding) error {
	return enc.Unmarshal(s.req, msg)
}
func (stubStream) CloseSend() error { return nil }
func (stubStream) Close() error     { return nil }

func runC10(c c10Case) (r pbt.Result) {
	if c.Early {
		c.K = 0 // the handler fails before it receives or sends anything
	}
	impl := &svcImpl{k: c.K, both: c.Both}
	if c.Err != nil {
		impl.err = c.Err.Build()
	}
	mux := drpcmux.New()
	if err := mux.Register(impl, svcDesc{}); err != nil {
		r.Failf("mux refused a well-formed description")
		return
	}
	cfg := c.Cfg
	cfg.Handler = probeOr{mux}
	w := sim.NewWorld(cfg, nil)
	defer w.Drain()
	fail := func(f string, a ...any) {
		r.Fail = fmt.Sprintf(f, a...)
		r.Detail = fmt.Sprintf("case shape=%d k=%d err=%+v\n", c.Shape, c.K, c.Err) + w.Dump()
	}
	rpc := []string{"/svc/Unary", "/svc/ServerStream", "/svc/ClientStream", "/svc/Bidi", "/svc/Nope", "/svc/Unary"}[c.Shape]
	if c.Shape == 4 {
		rpc = string(c.RpcName)
		if c.RpcName == nil || rpc == "/svc/Unary" || rpc == "/svc/ServerStream" || rpc == "/svc/ClientStream" || rpc == "/svc/Bidi" || strings.HasPrefix(rpc, "probe") {
			rpc = "/svc/Nope"
		}
	}
	req := []byte("ping")
	if c.Shape == 5 {
		req = append([]byte{0xEE}, "payload"...)
	}
	req = append(req, bytes.Repeat([]byte{'.'}, c.ReqSize)...)
	var wantErr error
	var wantMsg string
	var wantCode uint64
	codeFixed := true
	switch {
	case c.Shape == 4 || c.Shape == 5:
		wantErr = mux.HandleRPC(stubStream{req}, rpc)
		if wantErr == nil {
			r.Failf("harness: dispatcher accepted a bad call")
			return
		}
		// (the statement fixes that the client sees the dispatcher's failure unchanged, not how the dispatcher words
		// it: an oracle that fixed the wording - "unknown rpc: " + the quoted name - was tried against seeded C10-13
		// and withdrawn, a rewording would have alarmed)
		wantMsg, wantCode = wantErr.Error(), 0
	case c.Err != nil:
		wantErr = impl.err
		wantMsg = impl.err.Error()
		wantCode, codeFixed = c.Err.ExpectedCode()
	}
	var got []string
	var callErr error
	ctx := context.Background()
	w.GoCall("client", "call", 0, func() error {
		if c.Shape == 0 || c.Shape == 4 || c.Shape == 5 {
			in, out := &msgT{B: req}, &msgT{}
			callErr = w.Conn.Invoke(ctx, rpc, msgEnc{}, in, out)
			if callErr == nil {
				got = append(got, string(out.B))
			}
			return callErr
		}
		st, err := w.Conn.NewStream(ctx, rpc, msgEnc{})
		if err != nil {
			callErr = err
			return err
		}
		defer st.Close()
		recvAll := func() {
			for {
				var m msgT
				if err := st.MsgRecv(&m, msgEnc{}); err != nil {
					if !errors.Is(err, io.EOF) {
						callErr = err
					}
					return
				}
				got = append(got, string(m.B))
			}
		}
		switch c.Shape {
		case 1:
			if err := st.MsgSend(&msgT{B: req}, msgEnc{}); err != nil {
				callErr = err
				return err
			}
			_ = st.CloseSend()
			recvAll()
		case 2:
			for _, p := range []string{"a", "bc"} {
				if err := st.MsgSend(&msgT{B: []byte(p)}, msgEnc{}); err != nil {
					callErr = err
					return err
				}
			}
			_ = st.CloseSend()
			recvAll()
		case 3:
			if c.Early {
				// sends may report io.EOF once the handler's error has arrived: that only says "ended", the
				// reason is what the receive reports
				_ = st.MsgSend(&msgT{B: []byte("q0")}, msgEnc{})
				if c.Cfg.ManualFlush {
					_ = st.(interface{ RawFlush() error }).RawFlush()
				}
				_ = st.MsgSend(&msgT{B: []byte("q1")}, msgEnc{})
				recvAll()
				break
			}
			for i := 0; i < c.K; i++ {
				if err := st.MsgSend(&msgT{B: []byte(fmt.Sprintf("q%d", i))}, msgEnc{}); err != nil {
					callErr = err
					return err
				}
				var m msgT
				if err := st.MsgRecv(&m, msgEnc{}); err != nil {
					callErr = err
					return err
				}
				got = append(got, string(m.B))
			}
			_ = st.CloseSend()
			recvAll()
		}
		return callErr
	})
	choices := append([]int(nil), c.Choices...)
	for i := 0; i < 400 && !w.Done("client"); i++ {
		if _, ok := w.Step(take(&choices), sim.Filter{}); !ok {
			break
		}
	}
	w.Flush(sim.Filter{Coarse: true})
	if !w.Done("client") {
		fail("client call did not complete")
		return
	}
	// messages the handler sent before failing arrive first, in order
	var wantMsgs []string
	switch c.Shape {
	case 0:
		if c.Err == nil {
			wantMsgs = []string{"re:" + string(req)}
		}
	case 1:
		for i := 0; i < c.K; i++ {
			wantMsgs = append(wantMsgs, fmt.Sprintf("m%d", i))
		}
	case 2:
		if c.Err == nil {
			wantMsgs = []string{"re:abc"}
		}
	case 3:
		for i := 0; i < c.K; i++ {
			wantMsgs = append(wantMsgs, fmt.Sprintf("re:q%d", i))
		}
	}
	if strings.Join(got, "|") != strings.Join(wantMsgs, "|") {
		fail("messages sent before the handler failed did not all arrive first and in order")
		r.Detailf("got %q want %q err=%v", got, wantMsgs, callErr)
		return
	}
	if wantErr == nil {
		if callErr != nil {
			fail("a handler that returned no error produced an error at the client")
			r.Detailf("%v", callErr)
			return
		}
	} else {
		if callErr == nil {
			fail("handler error did not reach the caller")
			return
		}
		if callErr.Error() != wantMsg {
			fail("client error message differs from the handler's error message")
			r.Detailf("got %q want %q", clipStr(callErr.Error()), clipStr(wantMsg))
			return
		}
		if codeFixed && drpcerr.Code(callErr) != wantCode {
			fail("client error code differs from the code attached to the handler's error")
			r.Detailf("got %d want %d", drpcerr.Code(callErr), wantCode)
			return
		}
	}
	// the connection remains usable
	w.StartProbe()
	w.Flush(sim.Filter{Coarse: true})
	if !w.ProbeOK {
		fail("connection not usable after a handler error")
		r.Detailf("probe: %v", w.ProbeErr)
		return
	}
	if wantErr != nil && callErr != nil && (callErr.Error() != wantMsg || (codeFixed && drpcerr.Code(callErr) != wantCode)) {
		// the caller keeps the error (logs it, wraps it, returns it) while the connection carries the next call
		fail("the error a call returned changed after a later call on the connection")
		r.Detailf("now %q code %d, want %q code %d", clipStr(callErr.Error()), drpcerr.Code(callErr), clipStr(wantMsg), wantCode)
		return
	}
	r.Label(fmt.Sprintf("shape_%d", c.Shape))
	if c.Err != nil {
		r.Label("handler_error")
		if len(c.Err.Msg) >= 128 {
			r.Label("long_message")
		}
		if len(c.Err.Layers) >= 2 {
			r.Label("depth_2plus")
		}
	}
	if c.Shape >= 4 {
		r.Label("dispatcher_failure")
	}
	if c.Early {
		r.Label("client_still_sending_when_the_handler_failed")
		if c.Cfg.ManualFlush {
			r.Label("manual_flush")
		}
	}
	r.NonTrivial = wantErr != nil && (c.K >= 1 || c.Shape >= 4 || (c.Err != nil && (len(c.Err.Msg) >= 128 || len(c.Err.Layers) >= 2 || c.Err.Code >= 1<<32 || !isASCII(c.Err.Msg))))
	r.Key = fmt.Sprintf("%d/%d/%+v/%s", c.Shape, c.K, c.Err, strings.Join(w.Trace, ","))
	r.Sample = map[string]any{"shape": c.Shape, "k": c.K, "err": c.Err, "trace": clipTrace(w.Trace)}
	return
}

func isASCII(b []byte) bool {
	for _, c := range b {
		if c >= 0x80 || c < 0x20 {
			return false
		}
	}
	return true
}

func clipStr(s string) string {
	if len(s) > 200 {
		return s[:200] + "..."
	}
	return s
}

// probeOr serves the harness probe RPC itself and everything else through the mux.
type probeOr struct{ mux *drpcmux.Mux }

func (p probeOr) HandleRPC(stream drpc.Stream, rpc string) error {
	if strings.HasPrefix(rpc, "probe") {
		var b []byte
		if err := stream.MsgRecv(&b, sim.RawEnc{}); err != nil {
			return err
		}
		return stream.MsgSend(&b, sim.RawEnc{})
	}
	return p.mux.HandleRPC(stream, rpc)
}

func TestC10EndToEnd(t *testing.T) {
	pbt.Check(t, pbt.Prop[c10Case]{ID: "C10", Name: "end_to_end", Gen: genC10, Run: runC10})
}

var _ = bytes.Equal
