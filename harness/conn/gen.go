// Package conn holds the director-based (E3) checks of whole connections:
// C01, C02, C04, C05, C06, C07, C10/C11 (end to end), C12.
package conn

import (
	"pgregory.net/rapid"

	"verif/sim"
)

var sizeGen = rapid.SampledFrom([]int{0, 1, 20, 100, 300})

func genCfg(t *rapid.T) sim.Config {
	return sim.Config{
		Soft:         rapid.Bool().Draw(t, "soft"),
		SplitSize:    rapid.SampledFrom([]int{0, 5, 64, 5, 64, -1}).Draw(t, "split"),
		WriterBuf:    rapid.SampledFrom([]int{0, 1, 40, 1}).Draw(t, "wbuf"),
		AppendEnc:    rapid.IntRange(0, 3).Draw(t, "appendenc") == 0,
		RawAPI:       rapid.IntRange(0, 4).Draw(t, "rawapi") == 0,
		Stats:        rapid.IntRange(0, 3).Draw(t, "stats") == 0,
		NoInactivity: rapid.IntRange(0, 3).Draw(t, "noinactivity") == 0,
		// with ManualFlush what an application writes stays in the writer until it flushes or receives
		ManualFlush: rapid.IntRange(0, 5).Draw(t, "manualflush") == 0,
	}
}

func genChoices(t *rapid.T, max int) []int {
	return rapid.SliceOfN(rapid.IntRange(0, len(sim.Kinds)-1), 0, max).Draw(t, "choices")
}

// take consumes one pre-drawn choice (0 when exhausted).
func take(choices *[]int) int {
	if len(*choices) == 0 {
		return 0
	}
	c := (*choices)[0]
	*choices = (*choices)[1:]
	return c
}
