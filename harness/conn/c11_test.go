package conn

import (
	"context"
	"fmt"
	"sort"
	"strings"
	"testing"

	"pgregory.net/rapid"
	"storj.io/drpc/drpcmetadata"

	"verif/pbt"
	"verif/sim"
)

type metaCall struct {
	Derive   int         // 0: from the shared base context, 1: from a fresh context, 2: from the previous call's context
	Adds     [][2][]byte // pairs attached for this call
	AddPairs bool        // attach them with AddPairs instead of a chain of Add
	// Reuse (AddPairs only): the application keeps its map and changes it after AddPairs returned
	// (overwrites every value, adds a key); the call's metadata is what was attached, not what the map became
	Reuse   bool
	Unary   bool
	Abandon bool // the call is cancelled between its metadata packet and its invoke (soft cancel only)
}

type c11Case struct {
	Cfg     sim.Config
	Base    [][2][]byte
	Calls   []metaCall
	Choices []int
	// Concurrent: all calls are issued up front from separate goroutines (no abandonment then)
	Concurrent bool
}

func genKV(t *rapid.T) [2][]byte {
	str := rapid.OneOf(rapid.SampledFrom([][]byte{nil, []byte("auth"), []byte("auth2"), []byte("trace"), []byte("k"), {0xff, 0}, []byte("ü")}), rapid.SliceOfN(rapid.Byte(), 0, 6),
		rapid.Map(rapid.IntRange(200, 1100), func(n int) []byte { return []byte(strings.Repeat("v", n)) }))
	return [2][]byte{str.Draw(t, "k"), str.Draw(t, "v")}
}

func genC11(t *rapid.T) c11Case {
	c := c11Case{Cfg: sim.Config{Soft: rapid.Bool().Draw(t, "soft"), SplitSize: rapid.SampledFrom([]int{0, 64}).Draw(t, "split"), WriterBuf: rapid.SampledFrom([]int{1, 0}).Draw(t, "wbuf")}}
	c.Base = rapid.SliceOfN(rapid.Custom(genKV), 0, 2).Draw(t, "base")
	c.Calls = rapid.SliceOfN(rapid.Custom(func(t *rapid.T) metaCall {
		m := metaCall{Derive: rapid.SampledFrom([]int{0, 0, 1, 2}).Draw(t, "derive"), AddPairs: rapid.Bool().Draw(t, "addpairs"), Unary: rapid.Bool().Draw(t, "unary")}
		m.Adds = rapid.SliceOfN(rapid.Custom(genKV), 0, 3).Draw(t, "adds")
		m.Abandon = rapid.IntRange(0, 4).Draw(t, "abandon") == 0
		m.Reuse = rapid.Bool().Draw(t, "reuse")
		return m
	}), 2, 6).Draw(t, "calls")
	c.Concurrent = rapid.IntRange(0, 2).Draw(t, "concurrent") == 0
	c.Choices = genChoices(t, 200)
	return c
}

func copyMap(m map[string]string) map[string]string {
	out := map[string]string{}
	for k, v := range m {
		out[k] = v
	}
	return out
}

func descMeta(m map[string]string) string {
	var ks []string
	for k := range m {
		ks = append(ks, k)
	}
	sort.Strings(ks)
	var sb strings.Builder
	for _, k := range ks {
		v := m[k]
		if len(v) > 20 {
			v = fmt.Sprintf("%s...(%d)", v[:20], len(v))
		}
		fmt.Fprintf(&sb, "%q=%q ", k, v)
	}
	return sb.String()
}

func runC11(c c11Case) (r pbt.Result) {
	var rpcs []sim.RPC
	for _, call := range c.Calls {
		h := sim.Prog{Steps: []sim.Step{{Op: "recv"}, {Op: "send", Size: 1}, {Op: "drain"}, {Op: "ret"}}}
		_ = call
		rpcs = append(rpcs, sim.RPC{Handler: h})
	}
	cfg := c.Cfg
	abandonPossible := cfg.Soft
	if abandonPossible {
		cfg.Points = []string{"conn.afterMetadata"}
	}
	w := sim.NewWorld(cfg, rpcs)
	defer w.Drain()
	fail := func(f string, a ...any) {
		r.Fail = fmt.Sprintf(f, a...)
		r.Detail = w.Dump()
	}
	// contexts, built the way applications do; the expected maps follow value semantics
	base := context.Background()
	baseWant := map[string]string{}
	for _, kv := range c.Base {
		base = drpcmetadata.Add(base, string(kv[0]), string(kv[1]))
		baseWant[string(kv[0])] = string(kv[1])
	}
	prevCtx, prevWant := base, copyMap(baseWant)
	choices := append([]int(nil), c.Choices...)
	abandoned, shared, reused := 0, 0, 0
	type prepared struct {
		ctx     context.Context
		cancel  func()
		want    map[string]string
		abandon bool
		skipped bool
	}
	var prep []*prepared
	for _, call := range c.Calls {
		var parent context.Context
		var want map[string]string
		switch call.Derive {
		case 0:
			parent, want = base, copyMap(baseWant)
			shared++
		case 1:
			parent, want = context.Background(), map[string]string{}
		default:
			parent, want = prevCtx, copyMap(prevWant)
			shared++
		}
		ctx := parent
		if call.AddPairs {
			m := map[string]string{}
			for _, kv := range call.Adds {
				m[string(kv[0])] = string(kv[1])
			}
			ctx = drpcmetadata.AddPairs(ctx, m)
			for kk, v := range m {
				want[kk] = v
			}
			if call.Reuse {
				for kk := range m {
					m[kk] = "changed-after-AddPairs"
				}
				m["added-after-AddPairs"] = "x"
				reused++
			}
		} else {
			for _, kv := range call.Adds {
				ctx = drpcmetadata.Add(ctx, string(kv[0]), string(kv[1]))
				want[string(kv[0])] = string(kv[1])
			}
		}
		prevCtx, prevWant = ctx, copyMap(want)
		cctx, cancel := context.WithCancel(ctx)
		prep = append(prep, &prepared{ctx: cctx, cancel: cancel, want: want, abandon: call.Abandon && abandonPossible && len(want) > 0 && !c.Concurrent})
	}
	start := func(k int) string {
		call, p := c.Calls[k], prep[k]
		name := fmt.Sprintf("call%d", k)
		rpc := fmt.Sprintf("rpc%d", k)
		w.GoCall(name, "call", k, func() error {
			in := sim.MakePayload(uint32(k)<<8, 'c', 0, 3)
			if call.Unary {
				var out []byte
				return w.Conn.Invoke(p.ctx, rpc, w.Enc, &in, &out)
			}
			st, err := w.Conn.NewStream(p.ctx, rpc, w.Enc)
			if err != nil {
				return err
			}
			defer st.Close()
			if err := st.MsgSend(&in, w.Enc); err != nil {
				return err
			}
			if err := st.CloseSend(); err != nil {
				return err
			}
			var out []byte
			return st.MsgRecv(&out, w.Enc)
		})
		return name
	}
	if c.Concurrent {
		for k := range c.Calls {
			start(k)
		}
		for i := 0; i < 600; i++ {
			if parked := w.Points.Parked(); len(parked) > 0 {
				w.Points.Release(parked[0])
				continue
			}
			if _, ok := w.Step(take(&choices), sim.Filter{NoRelease: true}); !ok {
				break
			}
		}
		w.Flush(sim.Filter{Coarse: true})
		r.Label("concurrent_callers")
	} else {
		for k := range c.Calls {
			p := prep[k]
			name := start(k)
			abandon := p.abandon
			for i := 0; i < 300 && !w.Done(name); i++ {
				// hold the call between its metadata packet and its invoke only when it is to be abandoned
				if parked := w.Points.Parked(); len(parked) > 0 {
					if abandon {
						p.cancel()
						w.Quiesce() // the cancellation is processed while the call is still between its two packets
						abandoned++
						abandon = false
						w.Trace = append(w.Trace, "abandon")
					}
					w.Points.Release(parked[0])
					continue
				}
				if _, ok := w.Step(take(&choices), sim.Filter{NoRelease: true}); !ok {
					break
				}
			}
			w.Flush(sim.Filter{Coarse: true})
			p.cancel()
			w.Flush(sim.Filter{Coarse: true})
			if !w.Done(name) {
				fail("a call did not complete")
				return
			}
		}
	}
	for k := range c.Calls {
		p := prep[k]
		rpc := fmt.Sprintf("rpc%d", k)
		if !w.Done(fmt.Sprintf("call%d", k)) {
			fail("a call did not complete")
			return
		}
		if p.abandon && w.HStarted[rpc] == 0 {
			continue // abandoned before its invoke went out
		}
		if w.Closed() && w.HStarted[rpc] == 0 {
			r.Label("connection_closed_early")
			continue
		}
		if w.HStarted[rpc] != 1 {
			fail("a call did not reach its handler exactly once")
			return
		}
		got, want := w.HMeta[k], p.want
		bad := len(got) != len(want)
		for kk, v := range want {
			if gv, ok := got[kk]; !ok || gv != v {
				bad = true
			}
		}
		if bad {
			fail("handler metadata is not exactly what was attached to the call's context")
			r.Detailf("call %d got {%s} want {%s}", k, descMeta(got), descMeta(want))
			return
		}
	}
	if v := w.Violations(); len(v) > 0 {
		fail("%s", v[0])
		return
	}
	if abandoned > 0 {
		r.Label("abandoned_between_metadata_and_invoke")
	}
	if shared >= 2 {
		r.Label("contexts_derived_from_shared_parent")
	}
	if reused > 0 {
		r.Label("caller_changed_its_map_after_AddPairs")
	}
	distinct := map[string]bool{}
	for k := range c.Calls {
		distinct[descMeta(w.HMeta[k])] = true
	}
	r.NonTrivial = len(distinct) >= 2 || abandoned > 0
	r.Key = fmt.Sprintf("%v|%v|%s", c.Base, c.Calls, strings.Join(w.Trace, ","))
	r.Sample = map[string]any{"base": len(c.Base), "calls": len(c.Calls), "abandoned": abandoned, "trace": clipTrace(w.Trace)}
	return
}

func TestC11EndToEnd(t *testing.T) {
	pbt.Check(t, pbt.Prop[c11Case]{ID: "C11", Name: "end_to_end", Gen: genC11, Run: runC11})
}
