package conn

import (
	"fmt"
	"strings"
	"testing"

	"pgregory.net/rapid"

	"verif/pbt"
	"verif/sim"
)

type c05Case struct {
	Cfg     sim.Config
	RPCs    []sim.RPC
	Choices []int
	Kinds   []string // fault kinds to enumerate
	Stride  int      // enumerate every Stride-th I/O call (1 = every call)
	Offset  int
	// Only, when non-nil, restricts the enumeration to one (end, k, kind): used by shrunk replays.
	OnlyEnd  string
	OnlyK    int
	OnlyKind string
	// HoldPoints: goroutines parked at scheduling points are not released before the fault has fired
	// (unless nothing else can move), so that the fault lands while they are inside their window.
	HoldPoints bool
}

// conn_close: the connection (client end) or the serving context (server end) is closed locally by
// the application at the k-th I/O call, from another goroutine.
var faultKinds = []string{"read_err", "read_err_data", "read_err_soft", "write_err", "peer_close", "local_close", "conn_close"}

// genWorkload draws deadlock-free RPCs (each side's sender and receiver never wait for each other).
func genWorkload(t *rapid.T, cfg sim.Config, max int) []sim.RPC {
	var out []sim.RPC
	big := 5000
	if cfg.SplitSize > 0 && cfg.SplitSize*40 < big {
		big = cfg.SplitSize * 40
	}
	n := rapid.IntRange(1, max).Draw(t, "nrpcs")
	for i := 0; i < n; i++ {
		var p sim.RPC
		switch rapid.IntRange(0, 3).Draw(t, "shape") {
		case 0: // unary
			p.Unary = true
			p.ReqSize = rapid.SampledFrom([]int{0, 1, 50, big / 3, big}).Draw(t, "req")
			p.Handler.Steps = []sim.Step{{Op: "recv"}, {Op: "send", Size: rapid.SampledFrom([]int{0, 1, 50, big / 3, big}).Draw(t, "resp")}, {Op: "drain"}, {Op: "ret"}}
			if rapid.IntRange(0, 4).Draw(t, "herr") == 0 {
				p.Handler.Steps = []sim.Step{{Op: "recv"}, {Op: "reterr"}}
			}
		case 1: // sequential stream
			p.NoFinalClose = false
			p.Client.Steps = append(sendSteps(t, cfg, 4, "csends"), sim.Step{Op: "closesend"}, sim.Step{Op: "drain"})
			p.Handler.Steps = append(append([]sim.Step{{Op: "drain"}}, sendSteps(t, cfg, 4, "hsends")...), sim.Step{Op: "ret"})
		default: // sender and receiver on separate goroutines on both sides
			p.Client.Steps = append(sendSteps(t, cfg, 4, "csends"), sim.Step{Op: "closesend"})
			p.CSubs = []sim.Prog{{Steps: []sim.Step{{Op: "drain"}}}}
			p.Handler.Steps = []sim.Step{{Op: "drain"}, {Op: "ret"}}
			p.HSubs = []sim.Prog{{Steps: sendSteps(t, cfg, 4, "hsends")}}
		}
		switch rapid.IntRange(0, 2).Draw(t, "cancelwhendone") {
		case 1:
			p.CancelWhenDone = true
		case 2:
			p.CancelImmediately = true
		}
		out = append(out, p)
	}
	return out
}

func genC05(t *rapid.T) c05Case {
	c := c05Case{Cfg: sim.Config{
		Soft:      rapid.Bool().Draw(t, "soft"),
		SplitSize: rapid.SampledFrom([]int{7, 64, 1000}).Draw(t, "split"),
		WriterBuf: rapid.SampledFrom([]int{1, 100, 0}).Draw(t, "wbuf"),
	}}
	c.RPCs = genWorkload(t, c.Cfg, 3)
	if rapid.IntRange(0, 2).Draw(t, "points") == 0 {
		c.Cfg.Points = rapid.SliceOfNDistinct(rapid.SampledFrom([]string{"harness.Unmarshal.holding", "stream.rawWrite.beforeFrame", "stream.MsgSend.beforeFlush",
			"manager.manageReader.beforeDispatch", "manager.terminate.beforeClose", "stream.checkFinished", "manager.manageStream.enter"}), 1, 2, func(s string) string { return s }).Draw(t, "pts")
		c.Cfg.PointLimit = 6
		c.HoldPoints = rapid.Bool().Draw(t, "holdpoints")
	}
	c.Choices = genChoices(t, 150)
	if pbt.Thorough() {
		c.Kinds = faultKinds
		c.Stride = 1
	} else {
		c.Kinds = rapid.SliceOfNDistinct(rapid.SampledFrom(faultKinds), 2, 3, func(s string) string { return s }).Draw(t, "kinds")
		c.Stride = rapid.IntRange(1, 4).Draw(t, "stride")
		c.Offset = rapid.IntRange(0, 3).Draw(t, "offset")
	}
	return c
}

type c05Run struct {
	ioA, ioB int
	fail     string
	detail   string
	labels   []string
	trace    []string
}

// runWorkload executes the workload once, optionally with a fault planned on one end.
func runWorkload(c c05Case, end string, f *sim.Fault) (out c05Run) {
	w := sim.NewWorld(c.Cfg, c.RPCs)
	defer w.Drain()
	fail := func(format string, a ...any) {
		out.fail = fmt.Sprintf(format, a...)
		out.detail = fmt.Sprintf("fault end=%s %+v\n", end, f) + w.Dump()
	}
	var faulted *sim.End
	if f != nil {
		faulted = w.A
		if end == "B" {
			faulted = w.B
		}
		if f.Kind == "conn_close" {
			k := f.K
			faulted.SetFault(&sim.Fault{K: k, Kind: "none"})
			faulted.OnIO = func(idx int, isWrite bool) {
				if idx == k {
					if end == "A" {
						go w.Conn.Close()
					} else {
						w.CancelServer()
					}
				}
			}
		} else {
			faulted.SetFault(f)
		}
	}
	choices := append([]int(nil), c.Choices...)
	steps := 0
	var faultClock int64 = -1
	midFrame := false
	faultActor := "" // the actor whose own transport write received the fault
	for k := range c.RPCs {
		w.StartClient(k)
		name := fmt.Sprintf("c%d", k)
		for steps < 400 {
			w.Quiesce()
			if faulted != nil && faultClock < 0 && faulted.FaultFired() {
				faultClock = w.Clock
				if gid, isWrite := faulted.FaultSite(); isWrite && f.Kind != "conn_close" { // conn_close only uses the call as a trigger
					for _, a := range w.Actors() {
						if a.GID() == gid {
							faultActor = a.Name
						}
					}
				}
				// where did it land: is either direction in the middle of a frame?
				if parseWire(w.A.Out().AcceptedBytes()).Trail > 0 || parseWire(w.B.Out().AcceptedBytes()).Trail > 0 {
					midFrame = true
				}
			}
			if w.Done(name) && len(w.InCall(name+".")) == 0 {
				break
			}
			ch := take(&choices)
			hold := c.HoldPoints && faulted != nil && !faulted.FaultFired()
			if _, ok := w.Step(ch, sim.Filter{NoRelease: hold}); !ok {
				if !hold {
					break
				}
				if _, ok := w.Step(ch, sim.Filter{}); !ok {
					break
				}
			}
			steps++
		}
		w.Flush(sim.Filter{Coarse: true})
		if faulted != nil && faultClock < 0 && faulted.FaultFired() {
			faultClock = w.Clock
		}
	}
	w.Flush(sim.Filter{Coarse: true})
	w.Quiesce()
	out.ioA, out.ioB = w.A.IOs(), w.B.IOs()
	out.trace = w.Trace
	if v := w.Violations(); len(v) > 0 {
		fail("%s", v[0])
		return
	}
	// nothing hangs: every scripted call has returned, with or without a fault
	for _, a := range w.Actors() {
		if st, what := a.State(); st == 2 {
			fail("a call did not return after the transport failed")
			out.detail += fmt.Sprintf("actor %s still inside %s\n", a.Name, what)
			if f == nil {
				out.fail = "harness: fault-free workload did not complete"
			}
			return
		}
	}
	if f == nil {
		return
	}
	if faultClock < 0 {
		out.labels = append(out.labels, "fault_not_reached")
		return
	}
	// the connection reports itself closed on both sides, ServeOne has returned
	if !w.Closed() {
		fail("client connection does not report itself closed after the transport failure")
		return
	}
	if !w.ServerDone() {
		fail("server did not stop serving the connection after the transport failure")
		return
	}
	// the call whose own transport write failed reports an error
	if faultActor != "" {
		for _, op := range w.OpsSnapshot() {
			if op.Actor == faultActor && op.Start <= faultClock && op.End > faultClock && op.Err == nil && (op.Op == "send" || op.Op == "invoke" || op.Op == "newstream" || op.Op == "flush") {
				fail("a %s whose transport write failed returned nil", op.Op)
				return
			}
		}
		out.labels = append(out.labels, "fault_inside_a_callers_write")
	}
	// calls issued after the failure fail
	for _, op := range w.OpsSnapshot() {
		// (a receive may still hand out messages that reached this side before the failure; it must
		// not hang and what it returns must be a correct prefix, which is checked on delivery)
		if op.Start > faultClock+2 && op.Err == nil && (op.Op == "send" || op.Op == "invoke" || op.Op == "newstream") {
			side := "client"
			if strings.HasPrefix(op.Actor, "h") {
				side = "server"
			}
			// only the faulted connection is required to fail at once; the peer fails once EOF reached it,
			// which in flush mode has happened by the time a later step is granted
			// a peer that went away is noticed only when EOF arrives behind the bytes still in flight
			if (end == "A") == (side == "client") && f.Kind != "peer_close" {
				fail("a %s issued after the transport failure returned nil", op.Op)
				out.detail += fmt.Sprintf("%s %s started %d fault at %d\n", op.Actor, op.Op, op.Start, faultClock)
				return
			}
		}
	}
	if leaks := w.Leaks(sim.Snapshot()); len(leaks) > 0 {
		fail("library goroutines remain after the connection failed")
		for _, g := range leaks {
			out.detail += g.Frames + "\n\n"
		}
		return
	}
	if w.A.Closes() > 1 || w.B.Closes() > 1 {
		fail("a transport was closed more than once")
		return
	}
	out.labels = append(out.labels, "fault_fired", "kind_"+f.Kind, "end_"+end)
	if midFrame {
		out.labels = append(out.labels, "fault_mid_frame")
	}
	return
}

type c05FaultSample struct {
	End  string
	K    int
	Kind string
	Of   int
}

func runC05(c c05Case) (r pbt.Result) {
	base := runWorkload(c, "", nil)
	if base.fail != "" {
		r.Fail, r.Detail = base.fail, base.detail
		return
	}
	r.Label("workload")
	sub := pbt.Prop[c05FaultSample]{ID: "C05", Name: "fault_at_k"}
	tried, fired := 0, 0
	for _, end := range []string{"A", "B"} {
		n := base.ioA
		if end == "B" {
			n = base.ioB
		}
		for k := 1 + c.Offset%maxInt(c.Stride, 1); k <= n+1; k += maxInt(c.Stride, 1) {
			for _, kind := range c.Kinds {
				if c.OnlyKind != "" && (c.OnlyEnd != end || c.OnlyK != k || c.OnlyKind != kind) {
					continue
				}
				f := &sim.Fault{K: k, Kind: kind, J: (k * 7) % 23}
				res := runWorkload(c, end, f)
				tried++
				fr := pbt.Result{Fail: res.fail, Labels: res.labels, NonTrivial: res.fail == "" && len(res.labels) > 1,
					Key: fmt.Sprintf("%s/%d/%s|%v|%+v", end, k, kind, res.trace, c.RPCs)}
				pbt.Record(sub, c05FaultSample{end, k, kind, n}, fr)
				if len(res.labels) > 1 {
					fired++
				}
				if res.fail != "" {
					r.Fail = res.fail
					r.Detail = fmt.Sprintf("fault: end=%s k=%d/%d kind=%s\n", end, k, n, kind) + res.detail
					return
				}
			}
		}
	}
	r.NonTrivial = fired > 0
	r.Key = fmt.Sprintf("%v|%+v|%+v", base.trace, c.Cfg, c.RPCs)
	r.Sample = map[string]any{"cfg": c.Cfg, "rpcs": c.RPCs, "io_calls_client": base.ioA, "io_calls_server": base.ioB, "fault_runs": tried, "faults_fired": fired, "kinds": c.Kinds, "stride": c.Stride}
	return
}

func maxInt(a, b int) int {
	if a > b {
		return a
	}
	return b
}

func TestC05Faults(t *testing.T) {
	pbt.Check(t, pbt.Prop[c05Case]{ID: "C05", Name: "workload", Gen: genC05, Run: runC05})
}
