package conn

import (
	"fmt"
	"testing"

	"pgregory.net/rapid"

	"verif/pbt"
	"verif/ref"
	"verif/sim"
)

// C13, dispatch part: a live server (manager, stream, mux-less handler) is fed arbitrary frame
// sequences by a wire-level peer. It must never panic or wedge its own teardown: at the end it is
// either still serving or has terminated cleanly (transport closed exactly once, no goroutine left).

type rawFrame struct {
	Stream, Message uint64
	Kind            uint8
	Done, Control   bool
	Data            []byte
	Garbage         []byte // if set, these raw bytes are sent instead of a frame
}

type c13Case struct {
	Cfg     sim.Config
	Frames  []rawFrame
	Choices []int
}

func genC13(t *rapid.T) c13Case {
	c := c13Case{Cfg: sim.Config{Soft: rapid.Bool().Draw(t, "soft"), NoClient: true, ReaderMax: rapid.SampledFrom([]int{0, 64, 5000}).Draw(t, "rmax")}}
	sid, mid := uint64(1), uint64(0)
	c.Frames = rapid.SliceOfN(rapid.Custom(func(t *rapid.T) rawFrame {
		if rapid.IntRange(0, 19).Draw(t, "garbage") == 0 {
			return rawFrame{Garbage: rapid.SliceOfN(rapid.SampledFrom([]byte{0, 1, 2, 0x7f, 0x80, 0xff}), 1, 12).Draw(t, "raw")}
		}
		// mostly plausible id progressions, sometimes arbitrary
		switch rapid.IntRange(0, 9).Draw(t, "idmode") {
		case 0:
			sid++
			mid = 0
		case 1:
			sid += uint64(rapid.IntRange(0, 3).Draw(t, "sjump"))
		case 2:
			sid, mid = rapid.Uint64().Draw(t, "rs"), rapid.Uint64().Draw(t, "rm")
		}
		if rapid.IntRange(0, 3).Draw(t, "samemsg") > 0 {
			mid++
		}
		f := rawFrame{Stream: sid, Message: mid, Kind: uint8(rapid.SampledFrom([]int{1, 2, 3, 4, 5, 6, 7, 0, 8, 33, 63, 2, 1, 2}).Draw(t, "kind")),
			Done: rapid.IntRange(0, 3).Draw(t, "done") > 0, Control: rapid.IntRange(0, 5).Draw(t, "ctl") == 0}
		switch f.Kind {
		case 1:
			f.Data = []byte(rapid.SampledFrom([]string{"rpc0", "rpc1", "rpc0", "probe", "", "nope"}).Draw(t, "rpc"))
		case 2:
			f.Data = sim.MakePayload(0, 'c', uint32(rapid.IntRange(0, 3).Draw(t, "seq")), rapid.SampledFrom([]int{0, 10, 100}).Draw(t, "size"))
			if rapid.IntRange(0, 4).Draw(t, "junk") == 0 {
				f.Data = rapid.SliceOfN(rapid.Byte(), 0, 30).Draw(t, "junkdata")
			}
		default:
			f.Data = rapid.SliceOfN(rapid.Byte(), 0, 20).Draw(t, "data")
		}
		return f
	}), 1, 20).Draw(t, "frames")
	if rapid.IntRange(0, 2).Draw(t, "prelude") > 0 {
		// a well-formed start of an RPC, so that the hostile frames hit a live stream
		pre := []rawFrame{{Stream: 1, Message: 1, Kind: 1, Done: true, Data: []byte(rapid.SampledFrom([]string{"rpc0", "rpc1"}).Draw(t, "prerpc"))}}
		if rapid.Bool().Draw(t, "premsg") {
			pre = append(pre, rawFrame{Stream: 1, Message: 2, Kind: 2, Done: true, Data: sim.MakePayload(0, 'c', 0, 5)})
		}
		for i := range c.Frames {
			if c.Frames[i].Garbage == nil && c.Frames[i].Stream == 1 {
				c.Frames[i].Message += 2
			}
		}
		c.Frames = append(pre, c.Frames...)
	}
	c.Choices = genChoices(t, 100)
	return c
}

func runC13(c c13Case) (r pbt.Result) {
	rpcs := []sim.RPC{
		{Handler: sim.Prog{Steps: []sim.Step{{Op: "recv"}, {Op: "send", Size: 10}, {Op: "drain"}, {Op: "ret"}}}},
		{Handler: sim.Prog{Steps: []sim.Step{{Op: "send", Size: 1}, {Op: "recv"}, {Op: "reterr"}}}},
	}
	w := sim.NewWorld(c.Cfg, rpcs)
	fail := func(f string, a ...any) {
		r.Fail = fmt.Sprintf(f, a...)
		r.Detail = fmt.Sprintf("frames=%+v\n", c.Frames) + w.Dump()
	}
	choices := append([]int(nil), c.Choices...)
	past := 0
	for _, f := range c.Frames {
		var b []byte
		if f.Garbage != nil {
			b = f.Garbage
		} else {
			b = ref.AppendFrame(nil, ref.Frame{Stream: f.Stream, Message: f.Message, Kind: f.Kind, Done: f.Done, Control: f.Control, Data: f.Data})
		}
		w.A.Out().Inject(b)
		for i := 0; i < 6; i++ {
			if _, ok := w.Step(take(&choices), sim.Filter{}); !ok {
				break
			}
		}
		if w.HStarted["rpc0"]+w.HStarted["rpc1"] > 0 {
			past++
		}
	}
	w.Flush(sim.Filter{Coarse: true})
	served := w.HStarted["rpc0"] + w.HStarted["rpc1"] + w.HStarted["probe"]
	terminated := w.ServerDone()
	// the peer goes away: whatever state the server is in, it must shut down completely
	w.A.Fail(false)
	w.Flush(sim.Filter{Coarse: true})
	if !w.ServerDone() {
		// handlers still parked in the harness are aborted by Drain; only library-side wedges count
		leaks := w.Drain()
		if !w.ServerDone() {
			fail("server did not shut down after the peer went away")
			return
		}
		if len(leaks) > 0 {
			fail("library goroutines left behind after hostile frames and disconnect")
			return
		}
	} else if leaks := w.Drain(); len(leaks) > 0 {
		fail("library goroutines left behind after hostile frames and disconnect")
		return
	}
	if w.B.Closes() != 1 {
		fail("server transport not closed exactly once")
		r.Detailf("closes=%d", w.B.Closes())
		return
	}
	if served > 0 {
		r.Label("reached_a_handler")
	}
	if terminated {
		r.Label("server_terminated_the_connection")
	} else {
		r.Label("server_kept_serving")
	}
	r.NonTrivial = past > 0 || len(c.Frames) >= 3
	r.Key = fmt.Sprintf("%+v", c.Frames)
	return
}

func TestC13ManagerFrames(t *testing.T) {
	pbt.Check(t, pbt.Prop[c13Case]{ID: "C13", Name: "manager_frames", Gen: genC13, Run: runC13})
}
