package conn

import (
	"context"
	"fmt"
	"io"
	"testing"

	"pgregory.net/rapid"

	"verif/pbt"
	"verif/sim"
)

// C05, a narrow corner: only the send direction of the client's transport fails (its reads stay pending, as with a
// write deadline or a peer that shut down its receive half). The statement speaks of a failure "at any read or
// write": the call whose write failed returns an error instead of waiting for an answer that cannot come, every later
// call - also a receive on the stream whose send failed - returns an error instead of hanging, and the connection
// reports itself closed. (The first version of this check only judged the failing call, on the assumption that the
// library promises no more; the statement does. That gap was F30.) The failure's error value is drawn, including one
// that wraps io.EOF (which the stream layer also uses as its own "send side closed" signal).

type c05wCase struct {
	Cfg     sim.Config
	Unary   bool
	ReqSize int
	ErrKind int // 0 plain error, 1 wraps io.EOF, 2 io.ErrClosedPipe
	AfterOK int // number of earlier unary calls that complete before the send direction fails
	// Side: "client" - the client transport's writes fail; "server" - the server transport's writes fail (its answer
	// cannot be written: the server must give the connection up, which is how the client gets to know)
	Side string
}

func runC05Write(c c05wCase) (r pbt.Result) {
	var rpcs []sim.RPC
	echo := sim.Prog{Steps: []sim.Step{{Op: "recv"}, {Op: "send", Size: 2}, {Op: "drain"}, {Op: "ret"}}}
	for i := 0; i < c.AfterOK; i++ {
		rpcs = append(rpcs, sim.RPC{Unary: true, ReqSize: 3, Handler: echo})
	}
	if c.Unary {
		rpcs = append(rpcs, sim.RPC{Unary: true, ReqSize: c.ReqSize, Handler: echo})
	} else {
		rpcs = append(rpcs, sim.RPC{NoFinalClose: true, Client: sim.Prog{Steps: []sim.Step{{Op: "send", Size: c.ReqSize}}}, Handler: echo})
	}
	w := sim.NewWorld(c.Cfg, rpcs)
	defer w.Drain()
	fail := func(f string, a ...any) {
		r.Fail = fmt.Sprintf(f, a...)
		r.Detail = fmt.Sprintf("case=%+v\n", c) + w.Dump()
	}
	for k := 0; k < c.AfterOK; k++ {
		w.StartClient(k)
		w.Flush(sim.Filter{Coarse: true})
		if !w.Done(fmt.Sprintf("c%d", k)) {
			fail("harness: an undisturbed call did not complete")
			return
		}
	}
	werr := fmt.Errorf("sim: send direction failed")
	switch c.ErrKind {
	case 1:
		werr = fmt.Errorf("sim: send direction failed: %w", io.EOF)
	case 2:
		werr = io.ErrClosedPipe
	}
	if c.Side == "server" {
		w.B.FailWrites(werr)
	} else {
		w.A.FailWrites(werr)
	}
	k := c.AfterOK
	w.StartClient(k)
	w.Flush(sim.Filter{Coarse: true})
	name := fmt.Sprintf("c%d", k)
	if c.Side == "server" {
		// the client's call cannot be answered; the server, unable to write, has to drop the connection, and the
		// client's call ends with that
		if !c.Unary {
			w.GoCall("x", "recv-after", k, func() error {
				var b []byte
				if st := w.Stream(k); st != nil {
					return st.MsgRecv(&b, w.Enc)
				}
				return nil
			})
			w.Flush(sim.Filter{Coarse: true})
		}
		if !w.Done(name) || len(w.InCall("")) > 0 {
			fail("the client is still waiting although the server could not write its answer")
			return
		}
		if !w.ServerDone() {
			fail("the server keeps serving a connection it cannot write to")
			return
		}
		r.Label("server_side")
		r.Label(fmt.Sprintf("errkind_%d", c.ErrKind))
		r.NonTrivial = true
		r.Key = fmt.Sprintf("%+v", c)
		return
	}
	if !w.Done(name) || len(w.InCall(name)) > 0 {
		fail("a call whose write failed is still waiting instead of returning an error")
		return
	}
	if !w.Closed() {
		fail("a transport write failed, the failing call has returned, and the connection does not report itself closed")
		return
	}
	if !c.Unary && w.Stream(k) != nil {
		// NewStream itself succeeded (its invoke was only buffered); the failed call is a send on a stream the
		// application still holds open. A receive on it cannot be answered (nothing was sent): it must fail.
		w.GoCall("x", "recv-after", k, func() error {
			var b []byte
			return w.Stream(k).MsgRecv(&b, w.Enc)
		})
		w.Flush(sim.Filter{Coarse: true})
		if !w.Done("x") {
			fail("a receive on the stream whose send failed waits for an answer that cannot come")
			return
		}
		for _, op := range w.OpsSnapshot() {
			if op.Op == "recv-after" && op.Err == nil {
				fail("a receive on the stream whose send failed returned a message")
				return
			}
		}
		r.Label("stream_send_failed")
	}
	// a further call also ends (with an error), it does not queue up behind the failed one
	w.GoCall("next", "invoke-after", -1, func() error {
		in, out := sim.MakePayload(0xffff00, 'p', 0, 1), []byte(nil)
		return w.Conn.Invoke(context.Background(), "probe-after", w.Enc, &in, &out)
	})
	w.Flush(sim.Filter{Coarse: true})
	if !w.Done("next") {
		fail("a call issued after a call whose write failed is blocked behind it")
		return
	}
	sawErr := false
	for _, op := range w.OpsSnapshot() {
		if op.RPC == k && op.Err != nil {
			sawErr = true
		}
		if op.RPC == k && op.Op == "invoke" && op.Err == nil {
			fail("Invoke returned nil although its request could not be written")
			return
		}
	}
	if !sawErr {
		fail("no call of the RPC reported the write failure")
		return
	}
	r.Label(fmt.Sprintf("errkind_%d", c.ErrKind))
	if c.Unary {
		r.Label("unary")
	} else {
		r.Label("stream")
	}
	r.NonTrivial = true
	r.Key = fmt.Sprintf("%+v", c)
	return
}

func TestC05WriteOnly(t *testing.T) {
	gen := func(t *rapid.T) c05wCase {
		c := c05wCase{Cfg: genCfg(t), Unary: rapid.Bool().Draw(t, "unary"), ReqSize: rapid.SampledFrom([]int{0, 5, 100, 5000}).Draw(t, "reqsize"),
			ErrKind: rapid.IntRange(0, 2).Draw(t, "errkind"), AfterOK: rapid.IntRange(0, 2).Draw(t, "afterok"),
			Side: rapid.SampledFrom([]string{"client", "client", "server"}).Draw(t, "side")}
		c.Cfg.RawAPI, c.Cfg.ManualFlush = false, false
		if c.Side == "server" {
			c.Unary = true // (the scripted stream handler would carry on after its failed send and wait for the client)
		}
		return c
	}
	pbt.Check(t, pbt.Prop[c05wCase]{ID: "C05", Name: "write_only", Gen: gen, Run: runC05Write})
}
