package conn

import (
	"fmt"
	"io"
	"testing"

	"pgregory.net/rapid"

	"verif/pbt"
	"verif/sim"
)

// C05, a narrow corner: only the send direction of the client's transport fails (its reads stay pending, as with a
// write deadline or a peer that shut down its receive half). The library does not promise to notice that anywhere
// but in the call that writes - so that is all that is demanded here: the call whose write failed returns an error
// instead of waiting for an answer that cannot come. The failure's error value is drawn, including one that wraps
// io.EOF (which the stream layer also uses as its own "send side closed" signal).

type c05wCase struct {
	Cfg     sim.Config
	Unary   bool
	ReqSize int
	ErrKind int // 0 plain error, 1 wraps io.EOF, 2 io.ErrClosedPipe
	AfterOK int // number of earlier unary calls that complete before the send direction fails
}

func runC05Write(c c05wCase) (r pbt.Result) {
	var rpcs []sim.RPC
	echo := sim.Prog{Steps: []sim.Step{{Op: "recv"}, {Op: "send", Size: 2}, {Op: "drain"}, {Op: "ret"}}}
	for i := 0; i < c.AfterOK; i++ {
		rpcs = append(rpcs, sim.RPC{Unary: true, ReqSize: 3, Handler: echo})
	}
	if c.Unary {
		rpcs = append(rpcs, sim.RPC{Unary: true, ReqSize: c.ReqSize, Handler: echo})
	} else {
		rpcs = append(rpcs, sim.RPC{NoFinalClose: true, Client: sim.Prog{Steps: []sim.Step{{Op: "send", Size: c.ReqSize}}}, Handler: echo})
	}
	w := sim.NewWorld(c.Cfg, rpcs)
	defer w.Drain()
	fail := func(f string, a ...any) {
		r.Fail = fmt.Sprintf(f, a...)
		r.Detail = fmt.Sprintf("case=%+v\n", c) + w.Dump()
	}
	for k := 0; k < c.AfterOK; k++ {
		w.StartClient(k)
		w.Flush(sim.Filter{Coarse: true})
		if !w.Done(fmt.Sprintf("c%d", k)) {
			fail("harness: an undisturbed call did not complete")
			return
		}
	}
	werr := fmt.Errorf("sim: send direction failed")
	switch c.ErrKind {
	case 1:
		werr = fmt.Errorf("sim: send direction failed: %w", io.EOF)
	case 2:
		werr = io.ErrClosedPipe
	}
	w.A.FailWrites(werr)
	k := c.AfterOK
	w.StartClient(k)
	w.Flush(sim.Filter{Coarse: true})
	name := fmt.Sprintf("c%d", k)
	if !w.Done(name) || len(w.InCall(name)) > 0 {
		fail("a call whose write failed is still waiting instead of returning an error")
		return
	}
	sawErr := false
	for _, op := range w.OpsSnapshot() {
		if op.RPC == k && op.Err != nil {
			sawErr = true
		}
		if op.RPC == k && op.Op == "invoke" && op.Err == nil {
			fail("Invoke returned nil although its request could not be written")
			return
		}
	}
	if !sawErr {
		fail("no call of the RPC reported the write failure")
		return
	}
	r.Label(fmt.Sprintf("errkind_%d", c.ErrKind))
	if c.Unary {
		r.Label("unary")
	} else {
		r.Label("stream")
	}
	r.NonTrivial = true
	r.Key = fmt.Sprintf("%+v", c)
	return
}

func TestC05WriteOnly(t *testing.T) {
	gen := func(t *rapid.T) c05wCase {
		c := c05wCase{Cfg: genCfg(t), Unary: rapid.Bool().Draw(t, "unary"), ReqSize: rapid.SampledFrom([]int{0, 5, 100, 5000}).Draw(t, "reqsize"),
			ErrKind: rapid.IntRange(0, 2).Draw(t, "errkind"), AfterOK: rapid.IntRange(0, 2).Draw(t, "afterok")}
		c.Cfg.RawAPI, c.Cfg.ManualFlush = false, false
		return c
	}
	pbt.Check(t, pbt.Prop[c05wCase]{ID: "C05", Name: "write_only", Gen: gen, Run: runC05Write})
}
