package conn

import (
	"errors"
	"fmt"
	"io"
	"strings"
	"testing"

	"pgregory.net/rapid"

	"verif/pbt"
	"verif/sim"
)

type c01Case struct {
	Cfg     sim.Config
	RPCs    []sim.RPC
	Closer  []string // per RPC: "", "close", "cancel", "hclose" — a party that ends the RPC early
	Choices []int
	Skips   int // RPCs in which the receivers start with a receive that cannot decode its message
	// UnmarshalRace: the case was built so that a close/cancel can land while a receiver is inside Unmarshal
	UnmarshalRace bool
}

func sendSteps(t *rapid.T, cfg sim.Config, max int, label string) []sim.Step {
	split := cfg.SplitSize
	if split == 0 {
		split = 64 << 10
	}
	wb := cfg.WriterBuf
	if wb == 0 {
		wb = 4096
	}
	var sizes []int
	limit := 200000
	if split > 0 && split*40 < limit {
		limit = split * 40 // keep the number of frames (and director steps) per message bounded
	}
	add := func(v int) {
		v -= 17 // payload overhead: the message body is size+17 bytes
		if v >= 0 && v < limit {
			sizes = append(sizes, v)
		}
	}
	for _, v := range []int{17, 18, 30, 100} {
		add(v)
	}
	if split > 0 {
		for _, v := range []int{split - 1, split, split + 1, 2 * split, 2*split + 1, 3*split - 1} {
			add(v)
		}
	}
	for _, v := range []int{wb - 12, wb - 11, wb - 10, wb, wb + 1, 2 * wb} {
		add(v)
	}
	if cfg.ReaderMax > 0 {
		// the receiving reader's packet limit: messages of exactly the limit and just below it are legal (anything
		// above would, rightly, end the connection, so it is not sent)
		kept := sizes[:0]
		for _, v := range sizes {
			if v+17 <= cfg.ReaderMax {
				kept = append(kept, v)
			}
		}
		sizes = kept
		for _, v := range []int{cfg.ReaderMax, cfg.ReaderMax, cfg.ReaderMax - 1} {
			if v-17 >= 0 && v-17 < limit {
				sizes = append(sizes, v-17)
			}
		}
	}
	return rapid.SliceOfN(rapid.Custom(func(t *rapid.T) sim.Step {
		return sim.Step{Op: "send", Size: rapid.SampledFrom(sizes).Draw(t, "size")}
	}), 0, max).Draw(t, label)
}

func genC01(t *rapid.T) c01Case {
	c := c01Case{Cfg: sim.Config{
		Soft:         rapid.Bool().Draw(t, "soft"),
		SplitSize:    rapid.SampledFrom([]int{-1, 0, 1, 2, 7, 64, 1000}).Draw(t, "split"),
		WriterBuf:    rapid.SampledFrom([]int{1, 16, 100, 0}).Draw(t, "wbuf"),
		ManualFlush:  rapid.IntRange(0, 3).Draw(t, "manual") == 0,
		AppendEnc:    rapid.IntRange(0, 3).Draw(t, "appendenc") == 0,
		NoInactivity: rapid.IntRange(0, 3).Draw(t, "noinactivity") == 0,
	}}
	if rapid.IntRange(0, 3).Draw(t, "readermax") == 0 {
		c.Cfg.ReaderMax = rapid.SampledFrom([]int{64, 300, 5000}).Draw(t, "rmax")
	}
	if rapid.IntRange(0, 2).Draw(t, "smallbuf") == 0 {
		c.Cfg.StreamMaxBuf = rapid.SampledFrom([]int{1, 50, 5000}).Draw(t, "smaxbuf")
	}
	n := rapid.IntRange(1, 3).Draw(t, "nrpcs")
	twoReceivers := false
	c.Cfg.RawAPI = rapid.IntRange(0, 3).Draw(t, "rawapi") == 0
	for i := 0; i < n; i++ {
		var p sim.RPC
		p.NoFinalClose = true
		shape := rapid.IntRange(0, 3).Draw(t, "shape")
		cs := sendSteps(t, c.Cfg, 5, "csends")
		hs := sendSteps(t, c.Cfg, 5, "hsends")
		flush := func(steps []sim.Step) []sim.Step {
			if c.Cfg.ManualFlush && len(steps) > 0 {
				return append(steps, sim.Step{Op: "flush"})
			}
			return steps
		}
		switch shape {
		case 0: // everything sequential in one goroutine per side
			p.Client.Steps = append(flush(cs), sim.Step{Op: "closesend"}, sim.Step{Op: "drain"})
			p.Handler.Steps = append(append([]sim.Step{{Op: "drain"}}, flush(hs)...), sim.Step{Op: "ret"})
		case 1: // sender and receiver on separate goroutines on both sides
			p.Client.Steps = append(flush(cs), sim.Step{Op: "closesend"})
			p.CSubs = []sim.Prog{{Steps: []sim.Step{{Op: "drain"}}}}
			p.Handler.Steps = []sim.Step{{Op: "drain"}, {Op: "ret"}}
			p.HSubs = []sim.Prog{{Steps: flush(hs)}}
		case 3: // two concurrent receivers on each side
			p.Client.Steps = append(flush(cs), sim.Step{Op: "closesend"})
			p.CSubs = []sim.Prog{{Steps: []sim.Step{{Op: "drain"}}}, {Steps: []sim.Step{{Op: "drain"}}}}
			p.Handler.Steps = []sim.Step{{Op: "drain"}, {Op: "ret"}}
			p.HSubs = []sim.Prog{{Steps: flush(hs)}, {Steps: []sim.Step{{Op: "drain"}}}}
		default: // two concurrent senders on each side plus receivers
			cs2 := sendSteps(t, c.Cfg, 3, "csends2")
			hs2 := sendSteps(t, c.Cfg, 3, "hsends2")
			p.Client.Steps = []sim.Step{{Op: "drain"}}
			p.CSubs = []sim.Prog{{Steps: flush(cs)}, {Steps: flush(cs2)}}
			p.Handler.Steps = []sim.Step{{Op: "drain"}, {Op: "ret"}}
			p.HSubs = []sim.Prog{{Steps: flush(hs)}, {Steps: flush(hs2)}}
			// the half-close must come after both client senders: a third sub-actor would need to join them, so
			// in this shape the client never half-closes and the RPC is ended by a closer below.
		}
		// a receiver whose first receive cannot decode its message and carries on with the next one: the
		// undecodable message is consumed, not handed out again
		if rapid.IntRange(0, 3).Draw(t, "recvskip") == 0 {
			skipFirst := func(steps []sim.Step) []sim.Step {
				for i, s := range steps {
					if s.Op == "drain" {
						out := append([]sim.Step(nil), steps[:i]...)
						out = append(out, sim.Step{Op: "recvskip"})
						return append(out, steps[i:]...)
					}
				}
				return steps
			}
			p.Client.Steps = skipFirst(p.Client.Steps)
			if len(p.CSubs) > 0 {
				p.CSubs[0].Steps = skipFirst(p.CSubs[0].Steps)
			}
			p.Handler.Steps = skipFirst(p.Handler.Steps)
			c.Skips++
		}
		closer := ""
		if shape == 2 || rapid.IntRange(0, 3).Draw(t, "closer") == 0 {
			closer = rapid.SampledFrom([]string{"close", "cancel"}).Draw(t, "closerkind")
			p.CSubs = append(p.CSubs, sim.Prog{Steps: []sim.Step{{Op: closer}}})
		}
		c.Closer = append(c.Closer, closer)
		c.RPCs = append(c.RPCs, p)
		if shape == 3 {
			twoReceivers = true
		}
	}
	if rapid.IntRange(0, 5).Draw(t, "closer_during_unmarshal") == 0 && len(c.RPCs) > 0 {
		// a receiver is held inside Unmarshal (it still borrows the reader's buffer) while another goroutine closes
		// or cancels the stream and the peer's next message is already on its way
		c.Cfg.Points = []string{"harness.Unmarshal.holding"}
		c.Cfg.PointLimit = 8
		kind := rapid.SampledFrom([]string{"close", "cancel"}).Draw(t, "ucloser")
		nsend := rapid.IntRange(2, 4).Draw(t, "usends")
		p := sim.RPC{NoFinalClose: true, Client: sim.Prog{Steps: []sim.Step{{Op: "drain"}}}, CSubs: []sim.Prog{{Steps: []sim.Step{{Op: kind}}}}}
		for i := 0; i < nsend; i++ {
			p.Handler.Steps = append(p.Handler.Steps, sim.Step{Op: "send", Size: rapid.SampledFrom([]int{0, 10, 100}).Draw(t, "usize")})
		}
		p.Handler.Steps = append(p.Handler.Steps, sim.Step{Op: "ret"})
		c.RPCs[0], c.Closer[0] = p, kind
		c.Cfg.RawAPI, c.Cfg.ManualFlush = false, false
		c.UnmarshalRace = true
	} else if rapid.IntRange(0, 2).Draw(t, "points") == 0 {
		c.Cfg.Points = rapid.SliceOfNDistinct(rapid.SampledFrom(append([]string{"harness.Unmarshal.holding", "harness.Unmarshal.holding", "manager.manageReader.beforeDispatch"}, streamPoints...)), 1, 3, func(s string) string { return s }).Draw(t, "pts")
		c.Cfg.PointLimit = 8
	}
	c.Choices = genChoices(t, 400)
	if twoReceivers {
		// the raw stream interface (RawWrite+RawFlush, RawRecv) only where each side has one receiver per stream
		c.Cfg.RawAPI = false
	}
	return c
}

func runC01(c c01Case) (r pbt.Result) {
	w := sim.NewWorld(c.Cfg, c.RPCs)
	defer w.Drain()
	fail := func(f string, a ...any) {
		r.Fail = fmt.Sprintf(f, a...)
		r.Detail = w.Dump()
	}
	choices := append([]int(nil), c.Choices...)
	steps := 0
	anyCloser := false
	for _, cl := range c.Closer {
		anyCloser = anyCloser || cl != ""
	}
	multiWrite, parkedUnmarshal := false, false
	for k := range c.RPCs {
		w.StartClient(k)
		name := fmt.Sprintf("c%d", k)
		for steps < 400 {
			w.Quiesce()
			if w.Done(name) && len(w.InCall(name+".")) == 0 {
				break
			}
			for _, p := range w.Points.Parked() {
				if p.Name == "harness.Unmarshal.holding" {
					parkedUnmarshal = true
				}
			}
			filt := sim.Filter{}
			if c.UnmarshalRace && k == 0 && (!w.Done(fmt.Sprintf("c0.%d", len(c.RPCs[0].CSubs))) || w.B.Out().CanDeliver() || w.B.Out().CanAccept()) {
				// the receiver stays inside Unmarshal until the closer has had its turn and what the peer has sent
				// meanwhile has arrived
				filt.Hold = func(p string) bool { return p == "harness.Unmarshal.holding" }
			}
			if _, ok := w.Step(take(&choices), filt); !ok {
				break
			}
			steps++
		}
		w.Flush(sim.Filter{Coarse: true})
		if !w.Done(name) || len(w.InCall(name+".")) > 0 {
			// only possible when a closer is still waiting for its grant or the programs stalled: end it
			if c.Closer[k] == "" && !w.Closed() {
				// the workload is deadlock-free by construction and nobody ended it early: with the transport
				// flowing, every receiver must have seen end-of-stream by now
				fail("an undisturbed RPC did not run to completion (a receiver never saw end-of-stream)")
				return
			}
			if st := w.Stream(k); st != nil {
				w.GoCall(fmt.Sprintf("x%d", k), "forceclose", k, st.Close)
			}
			w.Flush(sim.Filter{Coarse: true})
			c.Closer[k] = "forced"
		}
	}
	w.Flush(sim.Filter{Coarse: true})
	if v := w.Violations(); len(v) > 0 {
		fail("%s", v[0])
		return
	}
	if !anyCloser && w.Closed() {
		// nobody cancelled, closed early or failed, every message is within the reader's limit: nothing entitles
		// either side to give up the connection
		fail("the connection was torn down although every call was left to complete")
		return
	}
	ops := w.OpsSnapshot()
	// what each transport accepted, parsed by the reference parser
	logs := map[byte]wireLog{'c': parseWire(w.A.Out().AcceptedBytes()), 's': parseWire(w.B.Out().AcceptedBytes())}
	for _, rec := range w.A.Out().Log() {
		if rec.Accepted > 0 && rec.Accepted < len(rec.Data) || len(w.A.Out().Log()) > 3 {
			multiWrite = true
		}
	}
	// index send ops
	type sk struct {
		k, sub int
		side   byte
		seq    uint32
	}
	sends := map[sk]sim.OpRec{}
	for _, op := range ops {
		if op.Op == "send" {
			sends[sk{op.RPC, op.Sub, op.Side, op.Seq}] = op
		}
	}
	multiFrame := false
	for key, op := range sends {
		if op.End == 0 || op.Err != nil {
			continue
		}
		// flush guarantee: a send that returned nil (automatic flushing) is already on the transport
		if !c.Cfg.ManualFlush && !c.Cfg.RawAPI { // (the statement speaks of send calls with automatic flushing: MsgSend)
			tag := uint32(key.k)<<8 | uint32(key.sub)
			end, ok := logs[key.side].MsgEnd[fmt.Sprintf("%d/%c/%d", tag, key.side, key.seq)]
			if !ok {
				fail("a message whose send returned nil never reached the transport as a complete message")
				r.Detailf("rpc %d side %c sender %d seq %d", key.k, key.side, key.sub, key.seq)
				return
			}
			if end > op.AcceptedAt {
				fail("send returned nil before the message's final frame was handed to the transport")
				r.Detailf("rpc %d side %c sender %d seq %d: final frame ends at byte %d, transport had taken %d when the send returned", key.k, key.side, key.sub, key.seq, end, op.AcceptedAt)
				return
			}
		}
		split := c.Cfg.SplitSize
		if split == 0 {
			split = 64 << 10
		}
		if split > 0 && op.Size+17 > split {
			multiFrame = true
		}
	}
	if c.Cfg.ManualFlush {
		// after an explicit flush returned nil, every earlier successful send of that actor is on the transport
		for _, fl := range ops {
			if fl.Op != "flush" || fl.Err != nil || fl.End == 0 || c.Closer[fl.RPC] != "" {
				continue // the statement speaks about automatic flushing; the explicit-flush form is only asserted on undisturbed RPCs
			}
			for key, op := range sends {
				if op.Actor == fl.Actor && op.Err == nil && op.End != 0 && op.End < fl.Start {
					tag := uint32(key.k)<<8 | uint32(key.sub)
					end, ok := logs[key.side].MsgEnd[fmt.Sprintf("%d/%c/%d", tag, key.side, key.seq)]
					if !ok || end > fl.AcceptedAt {
						fail("explicit flush returned nil but an earlier message is not on the transport")
						return
					}
				}
			}
		}
	}
	// prefix property: per (rpc, direction, sender) the received seqs are increasing (checked on arrival);
	// a skipped seq must belong to a send that failed or never completed.
	for key, seqs := range w.Recv {
		var k, sub int
		var from byte
		fmt.Sscanf(key, "%d/%c/%d", &k, &from, &sub)
		next := uint32(0)
		for _, s := range seqs {
			for ; next < s; next++ {
				op, ok := sends[sk{k, sub, from, next}]
				if ok && op.End != 0 && op.Err == nil {
					fail("a successfully sent message was skipped while a later one was delivered")
					r.Detailf("rpc %d dir %c sender %d: seq %d missing, seq %d received", k, from, sub, next, s)
					return
				}
			}
			if _, ok := sends[sk{k, sub, from, s}]; !ok {
				fail("a message was received that was never submitted")
				return
			}
			next = s + 1
		}
	}
	// completeness for graceful RPCs: every successful send was received and the drains ended with end-of-stream
	graceful := 0
	for k := range c.RPCs {
		if c.Closer[k] != "" || w.Closed() {
			continue
		}
		graceful++
		for key, op := range sends {
			if key.k != k || op.Err != nil || op.End == 0 {
				continue
			}
			got := false
			for _, s := range w.Recv[fmt.Sprintf("%d/%c/%d", k, key.side, key.sub)] {
				if s == key.seq {
					got = true
				}
			}
			if !got {
				fail("graceful RPC: a successfully sent message was never received")
				r.Detailf("rpc %d side %c sender %d seq %d", k, key.side, key.sub, key.seq)
				return
			}
		}
		for _, op := range ops {
			if op.RPC == k && op.Op == "send" && op.Err != nil {
				fail("graceful RPC: a send failed")
				r.Detailf("rpc %d %s: %v", k, op.Actor, op.Err)
				return
			}
		}
		// the last receive of each drain reports end-of-stream
		lastRecv := map[string]sim.OpRec{}
		for _, op := range ops {
			if op.RPC == k && op.Op == "recv" {
				lastRecv[op.Actor] = op
			}
		}
		for actor, op := range lastRecv {
			if !errors.Is(op.Err, io.EOF) {
				fail("graceful RPC: receiver did not end with end-of-stream after the peer's half-close")
				r.Detailf("rpc %d %s: last recv err=%v", k, actor, op.Err)
				return
			}
		}
	}
	concurrent := false
	for _, p := range c.RPCs {
		if len(p.CSubs) > 0 || len(p.HSubs) > 0 {
			concurrent = true
		}
	}
	if multiFrame {
		r.Label("multi_frame_message")
	}
	if multiWrite {
		r.Label("several_transport_writes")
	}
	if concurrent {
		r.Label("concurrent_senders_receivers")
	}
	if parkedUnmarshal {
		r.Label("consumer_parked_mid_unmarshal")
	}
	if graceful > 0 {
		r.Label("graceful_rpc")
	}
	if graceful < len(c.RPCs) {
		r.Label("early_end")
	}
	if c.Cfg.ManualFlush {
		r.Label("manual_flush")
	}
	if c.Skips > 0 {
		r.Label("receiver_skips_an_undecodable_message")
	}
	if c.Cfg.ReaderMax > 0 {
		r.Label("messages_at_the_readers_limit")
	}
	if c.Cfg.RawAPI {
		r.Label("raw_stream_interface")
	}
	if c.UnmarshalRace {
		r.Label("closer_may_land_during_unmarshal")
	}
	r.NonTrivial = multiFrame || concurrent || parkedUnmarshal
	r.Key = strings.Join(w.Trace, ",") + fmt.Sprintf("|%+v|%+v", c.Cfg, c.RPCs)
	r.Sample = map[string]any{"cfg": c.Cfg, "rpcs": c.RPCs, "closer": c.Closer, "trace": clipTrace(w.Trace)}
	return
}

func TestC01Delivery(t *testing.T) {
	pbt.Check(t, pbt.Prop[c01Case]{ID: "C01", Name: "delivery", Gen: genC01, Run: runC01})
}
