package conn

import (
	"fmt"
	"strings"
	"testing"

	"pgregory.net/rapid"

	"verif/pbt"
	"verif/sim"
)

// C04, server side: handler operations are in flight (a send parked in the transport because the
// client does not read, a receive blocked on nothing, both on separate goroutines) when the
// cancellation or disconnect reaches the server: every handler call returns and the handler's
// stream context is cancelled.

type c04sCase struct {
	Cfg     sim.Config
	HSends  []sim.Step // handler sender goroutine
	HRecvs  int        // handler receiver goroutine
	How     string     // server_ctx, client_disconnect, client_cancel
	StepsAt int
	Choices []int
	// Unread: messages the client has sent that no handler receive has taken when the stop happens. While one is
	// pending the server's reader sits in the stream's packet buffer and reads nothing more - neither the cancel
	// nor the EOF (known finding F19, same root as F5); with the exclusion on, no such message is sent.
	Unread int
	// HErr: the handler has no goroutines of its own and returns an error at once; the server's SendError is then
	// the operation in flight (parked in the transport, since the client does not read) when the stop happens
	HErr bool
}

func genC04S(t *rapid.T) c04sCase {
	c := c04sCase{Cfg: genCfg(t)}
	c.Cfg.RawAPI = false
	c.Cfg.ManualFlush = false
	c.HSends = rapid.SliceOfN(rapid.Custom(func(t *rapid.T) sim.Step { return sim.Step{Op: "send", Size: sizeGen.Draw(t, "sz")} }), 0, 3).Draw(t, "hsends")
	c.HRecvs = rapid.IntRange(0, 3).Draw(t, "hrecvs")
	c.How = rapid.SampledFrom([]string{"server_ctx", "client_disconnect", "client_cancel"}).Draw(t, "how")
	c.StepsAt = rapid.IntRange(0, 25).Draw(t, "stepsAt")
	if rapid.IntRange(0, 2).Draw(t, "points") == 0 {
		c.Cfg.Points = rapid.SliceOfNDistinct(rapid.SampledFrom(streamPoints), 1, 3, func(s string) string { return s }).Draw(t, "pts")
		c.Cfg.PointLimit = 6
	}
	c.Choices = rapid.SliceOfN(rapid.SampledFrom(c04Kinds), 0, 40).Draw(t, "choices")
	c.Unread = rapid.IntRange(0, 2).Draw(t, "unread")
	c.HErr = rapid.IntRange(0, 3).Draw(t, "herr") == 0
	return c
}

func runC04S(c c04sCase) (r pbt.Result) {
	var recvs []sim.Step
	for i := 0; i < c.HRecvs; i++ {
		recvs = append(recvs, sim.Step{Op: "recv"})
	}
	// the handler itself only waits for its two goroutines: it ends when they have been released
	// the client only waits for a message (its first receive flushes the invoke): nothing is left unread on the
	// server, whose reader would otherwise sit in the packet buffer and not see the disconnect (that is F5's family)
	unread := c.Unread
	if unread > 0 && pbt.Excluded("F19") {
		unread = 0
		r.Excluded = "F19"
	}
	if unread > 0 {
		// nobody on the handler side receives: the messages stay pending
		recvs = nil
	}
	csteps := []sim.Step{}
	for i := 0; i < unread; i++ {
		csteps = append(csteps, sim.Step{Op: "send", Size: 2})
	}
	csteps = append(csteps, sim.Step{Op: "recv"})
	rpc := sim.RPC{NoFinalClose: true, Client: sim.Prog{Steps: csteps},
		Handler: sim.Prog{Steps: []sim.Step{{Op: "ret"}}}, HSubs: []sim.Prog{{Steps: c.HSends}, {Steps: recvs}}}
	if c.HErr {
		rpc.Handler, rpc.HSubs = sim.Prog{Steps: []sim.Step{{Op: "reterr"}}}, nil
		rpc.ErrMsg = strings.Repeat("e", 300) // long enough to need the transport with every writer buffer
	}
	w := sim.NewWorld(c.Cfg, []sim.RPC{rpc})
	defer w.Drain()
	fail := func(f string, a ...any) {
		r.Fail = fmt.Sprintf(f, a...)
		r.Detail = fmt.Sprintf("case=%+v\n", c) + w.Dump()
	}
	choices := append([]int(nil), c.Choices...)
	w.StartClient(0)
	// bring the RPC up with a flowing transport until the handler exists
	for i := 0; i < 300 && w.HandlerStream(0) == nil; i++ {
		if _, ok := w.Step(0, sim.Filter{OnlyActors: func(n string) bool { return n == "c0" }}); !ok {
			break
		}
	}
	if w.HandlerStream(0) == nil {
		fail("harness: handler did not start")
		return
	}
	// the client's sends (if any) go out and reach the server before anything else happens
	for i := 0; i < 300 && unread > 0; i++ {
		if op := w.InCall("c0"); op["c0"] == "recv" {
			break
		}
		if _, ok := w.Step(0, sim.Filter{OnlyActors: func(n string) bool { return n == "c0" }}); !ok {
			break
		}
	}
	// the client stops reading: server->client bytes are accepted by nobody
	pre := sim.Filter{NoS2C: true, OnlyActors: func(n string) bool { return strings.HasPrefix(n, "h0.") || (c.HErr && n == "h0") }}
	for i := 0; i < c.StepsAt; i++ {
		if _, ok := w.Step(take(&choices), pre); !ok {
			break
		}
	}
	w.Quiesce()
	inFlight := w.InCall("h0.")
	parkedWrite := w.B.Out().CanAccept()
	hctx := w.HandlerStream(0).Context()
	w.Trace = append(w.Trace, "STOP:"+c.How)
	frozen := sim.Filter{NoTransport: true, NoGrants: true}
	switch c.How {
	case "server_ctx":
		w.CancelServer()
		if c.Cfg.Soft && pbt.Excluded("F13") {
			frozen.S2CAcceptOnly = true
			r.Excluded = "F13"
		}
	case "client_disconnect":
		w.A.Fail(false) // the client process went away: the server's reads see EOF behind the bytes in flight
		frozen = sim.Filter{NoGrants: true, NoS2C: true}
	case "client_cancel":
		w.CancelRPC(0) // the cancellation has to travel: client->server bytes keep moving, nothing else does
		frozen = sim.Filter{NoGrants: true, NoS2C: true}
		if c.Cfg.Soft {
			// a soft cancel keeps the connection: the (live) client keeps reading, so server->client bytes move again;
			// with a dead network the server's parked send can only end when the transport does
			frozen.NoS2C = false
		}
	}
	for i := 0; i < 2000; i++ {
		if _, ok := w.Step(take(&choices), frozen); !ok {
			break
		}
	}
	w.Quiesce()
	if still := w.InCall("h0."); len(still) > 0 {
		fail("handler operations still blocked after the cancellation / disconnect reached the server")
		r.Detailf("still=%v", still)
		return
	}
	if c.HErr {
		// the handler has returned; what may still be in flight is the server's own SendError
		for _, g := range w.Leaks(sim.Snapshot()) {
			if strings.Contains(g.Frames, "drpcstream.(*Stream).SendError(") {
				fail("the server's SendError is still blocked after the cancellation / disconnect reached the server")
				return
			}
		}
	}
	select {
	case <-hctx.Done():
	default:
		// the handler's remaining goroutines have not been granted their next step yet, but nothing is in flight:
		// the stream is terminated and idle, so its context must be done
		fail("peer handler's stream context was not cancelled")
		return
	}
	// later handler operations fail at once
	late := sim.Filter{NoTransport: true, OnlyActors: func(n string) bool { return strings.HasPrefix(n, "h0") }}
	if frozen.S2CAcceptOnly {
		late.S2CAcceptOnly = true
	}
	lateStart := w.Clock
	for i := 0; i < 200; i++ {
		if _, ok := w.Step(0, late); !ok {
			break
		}
	}
	w.Quiesce()
	if still := w.InCall("h0"); len(still) > 0 {
		fail("a handler operation issued after the cancellation blocked instead of failing")
		r.Detailf("still=%v", still)
		return
	}
	for _, op := range w.OpsSnapshot() {
		if strings.HasPrefix(op.Actor, "h0.") && op.Start > lateStart && (op.Op == "send" || op.Op == "recv") && op.Err == nil {
			fail("a handler %s issued after the cancellation returned nil", op.Op)
			return
		}
	}
	w.Flush(sim.Filter{Coarse: true})
	if !w.HandlersBalanced() {
		fail("handler did not return")
		return
	}
	if v := w.Violations(); len(v) > 0 {
		fail("%s", v[0])
		return
	}
	r.Label("how_" + c.How)
	if unread > 0 {
		r.Label("client_messages_unread_at_the_stop")
	}
	if c.HErr {
		r.Label("handler_returned_an_error")
	}
	if len(inFlight) >= 2 {
		r.Label("handler_ops_inflight_2")
	}
	if len(inFlight) >= 1 {
		r.Label("handler_ops_inflight_1plus")
	}
	if parkedWrite {
		r.Label("handler_send_parked_in_transport")
	}
	r.NonTrivial = len(inFlight) >= 1 || (c.HErr && parkedWrite)
	r.Key = strings.Join(w.Trace, ",") + fmt.Sprintf("|%+v", c)
	r.Sample = map[string]any{"how": c.How, "in_flight": inFlight, "trace": clipTrace(w.Trace)}
	return
}

func TestC04ServerSide(t *testing.T) {
	pbt.Check(t, pbt.Prop[c04sCase]{ID: "C04", Name: "server_side", Gen: genC04S, Run: runC04S})
}
