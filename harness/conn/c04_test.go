package conn

import (
	"context"
	"errors"
	"fmt"
	"strings"
	"testing"

	"pgregory.net/rapid"

	"verif/pbt"
	"verif/sim"
)

type c04Case struct {
	Cfg      sim.Config
	HSteps   []sim.Step // handler prelude (recv/send), then it drains and returns
	Sends    []sim.Step // actor c0.1
	Sends2   []sim.Step // actor c0.2 (second sender), may be empty
	NRecv    int        // actor c0.3
	Term     string     // actor c0.4: "", "close", "closesend"
	CancelAt int
	Choices  []int
	LateOps  int
	Stall    int // transport before the cancel: 0 flowing, 1 client->server stalled, 2 both directions stalled
	// Second: a second caller issues a unary RPC right after the cancel and has its own context
	// cancelled while it waits (for the semaphore, for the previous stream, or for its response).
	Second bool
	// Prelude: an earlier unary call on the same connection has completed and its context was cancelled
	// right away (`defer cancel()`), before the RPC under test starts.
	Prelude bool
	// NoAccept (soft cancel only): the transport takes no byte at all after the cancel. The operations in flight
	// at that moment must still return; operations issued afterwards are known finding F13 and are not issued.
	NoAccept bool
	// Deadline: the context of the RPC under test ends as an expired deadline does (context.DeadlineExceeded)
	Deadline bool
}

// weighted choice alphabet for C04: grants are frequent so that several operations are in
// flight when the cancel lands (construction, not rejection).
var c04Kinds = func() []int {
	idx := map[string]int{}
	for i, k := range sim.Kinds {
		idx[k] = i
	}
	var out []int
	add := func(k string, n int) {
		for i := 0; i < n; i++ {
			out = append(out, idx[k])
		}
	}
	add("default", 1)
	add("grant", 4)
	add("grant2", 3)
	add("grantLast", 3)
	add("release", 2)
	add("releaseNewest", 1)
	add("c2s.acceptAll", 1)
	add("c2s.deliverAll", 1)
	add("s2c.acceptAll", 1)
	add("s2c.deliverAll", 1)
	add("c2s.accept1", 1)
	add("c2s.deliver1", 1)
	add("c2s.deliver7", 1)
	add("s2c.deliver1", 1)
	return out
}()

var streamPoints = []string{"stream.MsgSend.beforeWriteLock", "stream.rawWrite.beforeFrame", "stream.Close.beforeWriteLock", "stream.Close.beforeSend",
	"stream.CloseSend.beforeWriteLock", "stream.CloseSend.beforeSend", "stream.Cancel.beforeLock", "stream.MsgRecv.beforeReadLock", "stream.SendCancel.beforeTryLock",
	"stream.SendCancel.beforeSend", "manager.manageStream.ctxDone", "stream.MsgSend.beforeFlush", "stream.RawFlush.beforeWriteLock"}

func genC04(t *rapid.T) c04Case {
	c := c04Case{Cfg: genCfg(t)}
	c.Cfg.RawAPI = false // this check judges single library calls; RawWrite+RawFlush is two of them
	c.Cfg.ManualFlush = false
	// the handler only receives and sends until the cancellation reaches it (it never ends the RPC by itself)
	plainStep := rapid.Custom(func(t *rapid.T) sim.Step {
		return sim.Step{Op: rapid.SampledFrom([]string{"recv", "send"}).Draw(t, "hop"), Size: sizeGen.Draw(t, "hsize")}
	})
	c.HSteps = rapid.SliceOfN(plainStep, 0, 3).Draw(t, "hsteps")
	sendGen := rapid.Custom(func(t *rapid.T) sim.Step { return sim.Step{Op: "send", Size: sizeGen.Draw(t, "sz")} })
	c.Sends = rapid.SliceOfN(sendGen, 0, 3).Draw(t, "sends")
	if rapid.IntRange(0, 3).Draw(t, "two") == 0 {
		c.Sends2 = rapid.SliceOfN(sendGen, 1, 2).Draw(t, "sends2")
	}
	c.NRecv = rapid.IntRange(0, 3).Draw(t, "nrecv")
	c.Term = rapid.SampledFrom([]string{"", "", "close", "closesend"}).Draw(t, "term")
	c.CancelAt = rapid.IntRange(0, 30).Draw(t, "cancelAt")
	c.LateOps = rapid.IntRange(0, 3).Draw(t, "late")
	c.Stall = rapid.IntRange(0, 2).Draw(t, "stall")
	c.Second = rapid.IntRange(0, 2).Draw(t, "second") == 0
	c.Prelude = rapid.Bool().Draw(t, "prelude")
	if rapid.IntRange(0, 2).Draw(t, "points") == 0 {
		// (including the consumer held inside Unmarshal while it still borrows the stream's read buffer)
		c.Cfg.Points = rapid.SliceOfNDistinct(rapid.SampledFrom(append([]string{"harness.Unmarshal.holding", "harness.Unmarshal.holding", "manager.manageReader.beforeDispatch", "manager.manageStream.enter", "manager.manageStream.enter"}, streamPoints...)), 1, 4, func(s string) string { return s }).Draw(t, "pts")
		c.Cfg.PointLimit = 6
	}
	c.Choices = rapid.SliceOfN(rapid.SampledFrom(c04Kinds), 0, 40).Draw(t, "choices")
	c.NoAccept = rapid.Bool().Draw(t, "noaccept")
	c.Deadline = rapid.IntRange(0, 2).Draw(t, "deadline") == 0
	return c
}

func inTransportWrite(gid int64) bool {
	for _, g := range sim.Snapshot() {
		if g.ID == gid {
			return strings.Contains(g.Frames, "sim.(*End).Write")
		}
	}
	return false
}

func runC04(c c04Case) (r pbt.Result) {
	hsteps := append(append([]sim.Step(nil), c.HSteps...), sim.Step{Op: "drain"}, sim.Step{Op: "ret"})
	var recvSteps []sim.Step
	for i := 0; i < c.NRecv; i++ {
		recvSteps = append(recvSteps, sim.Step{Op: "recv"})
	}
	// late operations after the cancel: extra sends and receives
	sends := append([]sim.Step(nil), c.Sends...)
	for i := 0; i < c.LateOps; i++ {
		sends = append(sends, sim.Step{Op: "send", Size: 1})
		recvSteps = append(recvSteps, sim.Step{Op: "recv"})
	}
	var term []sim.Step
	if c.Term != "" {
		term = []sim.Step{{Op: c.Term}}
	}
	ctxErr := context.Canceled
	if c.Deadline {
		ctxErr = context.DeadlineExceeded
	}
	if c.Deadline {
		r.Label("context_ended_by_deadline")
	}
	rpc := sim.RPC{NoFinalClose: true, Deadline: c.Deadline, Handler: sim.Prog{Steps: hsteps},
		CSubs: []sim.Prog{{Steps: sends}, {Steps: c.Sends2}, {Steps: recvSteps}, {Steps: term}}}
	rpc1 := sim.RPC{Unary: true, ReqSize: 3, CSubs: []sim.Prog{{Steps: []sim.Step{{Op: "cancel"}}}},
		Handler: sim.Prog{Steps: []sim.Step{{Op: "recv"}, {Op: "send", Size: 1}, {Op: "ret"}}}}
	rpc2 := sim.RPC{Unary: true, ReqSize: 2, CancelImmediately: true,
		Handler: sim.Prog{Steps: []sim.Step{{Op: "recv"}, {Op: "send", Size: 2}, {Op: "drain"}, {Op: "ret"}}}}
	w := sim.NewWorld(c.Cfg, []sim.RPC{rpc, rpc1, rpc2})
	defer w.Drain()
	fail := func(f string, a ...any) {
		r.Fail = fmt.Sprintf(f, a...)
		r.Detail = fmt.Sprintf("case=%+v\n", c) + w.Dump()
	}
	choices := append([]int(nil), c.Choices...)
	soft := c.Cfg.Soft
	if c.Prelude {
		w.StartClient(2)
		// the goroutine watching the prelude call's context may be late: the call is over and its
		// context cancelled before that goroutine looks at either
		w.Flush(sim.Filter{Coarse: true, Hold: func(p string) bool { return p == "manager.manageStream.enter" }})
		w.Flush(sim.Filter{Coarse: true})
		if !w.Done("c2") {
			fail("harness: prelude call did not complete")
			return
		}
		r.Label("after_an_earlier_cancelled_call")
	}
	// create the stream with a flowing transport, nothing else granted
	w.StartClient(0)
	only := func(names ...string) sim.Filter {
		return sim.Filter{OnlyActors: func(n string) bool {
			for _, x := range names {
				if x == n {
					return true
				}
			}
			return false
		}}
	}
	for i := 0; i < 200 && w.Stream(0) == nil; i++ {
		if _, ok := w.Step(0, only("c0")); !ok {
			break
		}
	}
	if w.Stream(0) == nil {
		fail("harness: stream was not created")
		return
	}
	clientActor := func(n string) bool { return strings.HasPrefix(n, "c0.") }
	// stepped phase
	lateBudget := map[string]int{"c0.1": len(c.Sends), "c0.3": c.NRecv}
	granted := map[string]int{}
	preFilter := sim.Filter{NoC2S: c.Stall >= 1, NoS2C: c.Stall == 2, OnlyActors: func(n string) bool {
		if !clientActor(n) {
			return true // handler actors
		}
		if lim, ok := lateBudget[n]; ok && granted[n] >= lim {
			return false // late ops are kept for after the cancel
		}
		return true
	}}
	for i := 0; i < c.CancelAt; i++ {
		name, ok := w.Step(take(&choices), preFilter)
		if !ok {
			break
		}
		if j := strings.IndexByte(name, ':'); j > 0 && clientActor(name[:j]) {
			granted[name[:j]]++
		}
	}
	w.Quiesce()
	inCall := w.InCall("c0.")
	pendingWrite := w.A.Out().CanAccept()
	// which in-flight sends are parked inside the transport itself
	sendInTransport := map[string]bool{}
	for name, op := range inCall {
		if op == "send" {
			if a := w.Actor(name); a != nil && inTransportWrite(a.GID()) {
				sendInTransport[name] = true
			}
		}
	}
	recvInTransport := map[string]bool{}
	for name, op := range inCall {
		if op == "recv" {
			if a := w.Actor(name); a != nil && inTransportWrite(a.GID()) {
				recvInTransport[name] = true
			}
		}
	}
	// operations whose goroutine is merely held at a scheduling point are in progress, not blocked:
	// only "it returns" is demanded of them.
	atPoint := map[string]bool{}
	for _, arr := range w.Points.Parked() {
		for name := range inCall {
			if a := w.Actor(name); a != nil && a.GID() == arr.GID {
				atPoint[name] = true
			}
		}
	}
	termInFlight := inCall["c0.4"] != ""
	termQueued := false
	if termInFlight {
		if a := w.Actor("c0.4"); a != nil && !inTransportWrite(a.GID()) {
			termQueued = true // waiting for a stream lock (holding the state mutex), or held at a point before it
		}
	}
	if pbt.Excluded("F7") && !soft && termQueued && len(inCall) >= 2 {
		// known finding F7: hard cancel while a terminal call is queued behind another operation that
		// holds the write lock and is (or will be) parked in the transport: the cancel watcher blocks on
		// the stream's state mutex and never closes the transport.
		r.Excluded = "F7"
		r.Label("excluded_F7")
		return
	}
	cancelTime := w.Clock
	w.Trace = append(w.Trace, "CANCEL")
	w.CancelRPC(0)
	frozen := sim.Filter{NoTransport: true, NoGrants: true}
	skipLate := false
	if soft && pbt.Excluded("F13") {
		// known finding F13: in soft mode a stalled transport blocks later calls behind the cancel packet;
		// excluded either by letting the transport accept (never deliver) client bytes, or by keeping it
		// fully frozen and not issuing later calls (the ones in flight must return all the same).
		if c.NoAccept && len(atPoint) == 0 {
			// (a call held at a scheduling point before it takes its lock behaves like a later call: F13 again)
			skipLate = true
			r.Excluded = "F13"
			r.Label("soft_cancel_transport_takes_nothing")
		} else {
			frozen.C2SAcceptOnly = true
			if pendingWrite {
				r.Excluded = "F13"
			}
		}
	}
	if c.Second {
		w.StartClient(1)
		frozen.NoGrants = false
		frozen.OnlyActors = func(n string) bool { return n == "c1" || n == "c1.1" }
	}
	for i := 0; i < 500; i++ {
		if _, ok := w.Step(take(&choices), frozen); !ok {
			break
		}
	}
	frozen.NoGrants, frozen.OnlyActors = true, nil
	w.Quiesce()
	if c.Second && !w.Done("c1") {
		fail("a second caller whose own context was cancelled while waiting did not return")
		return
	}
	if still := w.InCall("c0."); len(still) > 0 {
		fail("operations still blocked after the context was cancelled (frozen transport)")
		r.Detailf("still=%v", still)
		return
	}
	soleCause := c.Term == ""
	for _, op := range w.OpsSnapshot() {
		if !strings.HasPrefix(op.Actor, "c0.") || op.Start > cancelTime || op.End <= cancelTime {
			continue
		}
		switch {
		case atPoint[op.Actor]:
		case op.Op == "send" && op.Err == nil && frozen.C2SAcceptOnly:
			// soft mode with the F13 exclusion: the transport took the bytes, the send legitimately succeeded
		case op.Op == "recv" && op.Err == nil:
			// nothing is delivered after the cancel (frozen transport), so the message had reached the stream before
			// it: a receive that was queued (e.g. behind the write lock for its first flush) may still hand it out
			r.Label("blocked_recv_returned_buffered_message")
		case op.Op == "send" && op.Err == nil:
			fail("a %s blocked at cancel time returned nil", op.Op)
			return
		case op.Op == "recv" && soft && recvInTransport[op.Actor] && pbt.Excluded("F14"):
			// known finding F14: soft cancel, busy path closes the transport before the stream's cancel
			// signal is set, so a receive parked in its first flush may report the transport's error.
			r.Excluded = "F14"
		case op.Op == "recv" && soleCause && !errors.Is(op.Err, ctxErr):
			fail("blocked receive did not report the context's error")
			r.Detailf("err=%v", op.Err)
			return
		case op.Op == "send" && soleCause && !soft && sendInTransport[op.Actor] && !errors.Is(op.Err, ctxErr):
			fail("send blocked in the transport (default cancel mode) did not report the context's error")
			r.Detailf("err=%v", op.Err)
			return
		}
	}
	// later operations fail at once, still frozen
	lateStart := w.Clock
	for i := 0; i < 20 && !skipLate; i++ {
		f := frozen
		f.NoGrants = false
		f.OnlyActors = func(n string) bool { return n == "c0.1" || n == "c0.3" }
		f.NoTransport = true
		acts := w.Enabled(f)
		granted := false
		for _, a := range acts {
			if strings.HasPrefix(a.Kind, "grant") {
				w.Step(1, sim.Filter{NoTransport: true, NoRelease: true, OnlyActors: f.OnlyActors})
				granted = true
				break
			}
		}
		if !granted {
			break
		}
		for j := 0; j < 100; j++ {
			if _, ok := w.Step(0, frozen); !ok {
				break
			}
		}
	}
	w.Quiesce()
	if still := w.InCall("c0."); len(still) > 0 {
		fail("an operation issued after the cancel blocked instead of failing")
		r.Detailf("still=%v", still)
		return
	}
	nLate := 0
	for _, op := range w.OpsSnapshot() {
		if strings.HasPrefix(op.Actor, "c0.") && op.Start > lateStart && (op.Op == "send" || op.Op == "recv") {
			nLate++
			if op.Err == nil {
				fail("a %s issued after the cancel returned nil", op.Op)
				return
			}
		}
	}
	// the transport moves again: the peer learns about it; the connection is closed or usable
	w.Flush(sim.Filter{Coarse: true})
	if !w.HandlersBalanced() {
		fail("peer handler did not end after the cancellation reached it")
		return
	}
	if soleCause && w.HStarted["rpc0"] > 0 && !w.HCtxDone[0] {
		fail("peer handler's stream context was not cancelled")
		return
	}
	if w.Closed() {
		r.Label("closed_after")
	} else {
		r.Label("probed_after")
		w.StartProbe()
		w.Flush(sim.Filter{Coarse: true})
		if !w.ProbeOK && !w.Closed() {
			fail("connection neither closed nor usable after the cancel")
			r.Detailf("probe err=%v", w.ProbeErr)
			return
		}
	}
	if v := w.Violations(); len(v) > 0 {
		fail("%s", v[0])
		return
	}
	if len(inCall) >= 2 {
		r.Label("inflight_2plus")
	}
	if len(sendInTransport) > 0 {
		r.Label("send_in_transport")
	}
	if pendingWrite {
		r.Label("write_parked_at_cancel")
	}
	if termInFlight {
		r.Label("terminal_call_in_flight")
	}
	if nLate > 0 {
		r.Label("late_ops")
	}
	r.Label(fmt.Sprintf("stall_%d", c.Stall))
	if c.Second {
		r.Label("second_caller")
	}
	if soft {
		r.Label("soft")
	} else {
		r.Label("hard")
	}
	if len(w.Points.Hits) > 0 && len(c.Cfg.Points) > 0 {
		r.Label("points")
	}
	r.NonTrivial = len(inCall) >= 2 && (pendingWrite || len(w.Points.Parked()) > 0 || termInFlight || len(sendInTransport) > 0)
	if len(inCall) >= 1 {
		r.Label("inflight_1plus")
	}
	r.Key = strings.Join(w.Trace, ",") + fmt.Sprintf("|%v|%v|%v|%d|%s", c.Cfg, c.Sends, c.Sends2, c.NRecv, c.Term)
	r.Sample = map[string]any{"cfg": c.Cfg, "sends": c.Sends, "sends2": c.Sends2, "nrecv": c.NRecv, "term": c.Term, "inflight_at_cancel": inCall, "trace": clipTrace(w.Trace)}
	return
}

func TestC04ClientCancel(t *testing.T) {
	pbt.Check(t, pbt.Prop[c04Case]{ID: "C04", Name: "client_cancel", Gen: genC04, Run: runC04})
}
