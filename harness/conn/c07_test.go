package conn

import (
	"bytes"
	"fmt"
	"io"
	"strings"
	"testing"

	"pgregory.net/rapid"
	"storj.io/drpc/drpcwire"

	"verif/pbt"
	"verif/sim"
)

// genC07: 1..3 RPCs whose calls are all issued up front (so the next NewStream/Invoke waits while
// the previous stream is still being used and closed by several goroutines), small writer buffers
// so that frames hit the transport individually, multi-frame messages, and stream scheduling points.
func genC07(t *rapid.T) c06Case {
	c := c06Case{Cfg: sim.Config{
		Soft:      rapid.Bool().Draw(t, "soft"),
		SplitSize: rapid.SampledFrom([]int{5, 64, 0, 1}).Draw(t, "split"),
		WriterBuf: rapid.SampledFrom([]int{1, 1, 40, 0}).Draw(t, "wbuf"),
	}}
	sz := rapid.SampledFrom([]int{0, 1, 20, 100, 300})
	send := rapid.Custom(func(t *rapid.T) sim.Step { return sim.Step{Op: "send", Size: sz.Draw(t, "size")} })
	n := rapid.IntRange(1, 3).Draw(t, "nrpcs")
	for i := 0; i < n; i++ {
		var p sim.RPC
		if rapid.IntRange(0, 3).Draw(t, "unary") == 0 {
			p.Unary = true
			p.ReqSize = sz.Draw(t, "req")
			if rapid.Bool().Draw(t, "ucancel") {
				p.CSubs = []sim.Prog{{Steps: []sim.Step{{Op: "cancel"}}}}
			}
			p.Handler.Steps = []sim.Step{{Op: "recv"}, {Op: "send", Size: sz.Draw(t, "resp")}, {Op: "drain"}, {Op: "ret"}}
		} else {
			p.Client.Steps = rapid.SliceOfN(send, 0, 3).Draw(t, "csends")
			term := rapid.SampledFrom([]string{"closesend", "close", "cancel", "closesend"}).Draw(t, "term")
			p.CSubs = []sim.Prog{
				{Steps: rapid.SliceOfN(send, 0, 2).Draw(t, "csends2")},
				{Steps: []sim.Step{{Op: term}}},
				{Steps: []sim.Step{{Op: "drain"}}},
			}
			if rapid.Bool().Draw(t, "term2") {
				p.CSubs = append(p.CSubs, sim.Prog{Steps: []sim.Step{{Op: rapid.SampledFrom([]string{"close", "closesend", "cancel"}).Draw(t, "term2kind")}}})
			}
			p.Handler.Steps = []sim.Step{{Op: "drain"}, {Op: "ret"}}
			p.HSubs = []sim.Prog{{Steps: rapid.SliceOfN(send, 0, 3).Draw(t, "hsends")}}
			if rapid.IntRange(0, 2).Draw(t, "hreterr") == 0 {
				p.Handler.Steps = []sim.Step{{Op: "recv"}, {Op: "reterr"}}
			}
		}
		c.RPCs = append(c.RPCs, p)
	}
	if rapid.IntRange(0, 3).Draw(t, "points") > 0 {
		// the windows right before a terminal packet is written are listed twice: they are where a later stream could overtake
		c.Cfg.Points = rapid.SliceOfNDistinct(rapid.SampledFrom(append([]string{"manager.acquireSemaphore.acquired", "manager.newStream.beforeSet", "stream.checkFinished",
			"stream.RawWrite.beforeWriteLock", "conn.NewStream.afterNewClientStream", "conn.Invoke.afterNewClientStream",
			"stream.SendCancel.beforeSend", "stream.Close.beforeSend", "stream.CloseSend.beforeSend", "stream.SendError.beforeSend"}, streamPoints...)), 1, 4, func(s string) string { return s }).Draw(t, "pts")
		c.Cfg.PointLimit = 12
	}
	c.Concurrent = true
	c.StallDir = rapid.IntRange(0, 2).Draw(t, "stalldir")
	c.StallFrom = rapid.IntRange(0, 8).Draw(t, "stallfrom")
	c.StallLen = rapid.IntRange(1, 40).Draw(t, "stalllen")
	c.Choices = rapid.SliceOfN(rapid.SampledFrom(c04Kinds), 0, 300).Draw(t, "choices")
	return c
}

// readerAccepts feeds the bytes to the current drpcwire.Reader: a conforming peer reader must
// never reject what the writer side produced.
func readerAccepts(b []byte) error {
	rd := drpcwire.NewReader(bytes.NewReader(b))
	for {
		_, err := rd.ReadPacket()
		if err == io.EOF || err == io.ErrUnexpectedEOF {
			return nil
		}
		if err != nil {
			return err
		}
	}
}

func runC07(c c06Case) (r pbt.Result) {
	w, forced, _ := execPrograms(c)
	defer w.Drain()
	fail := func(f string, a ...any) {
		r.Fail = fmt.Sprintf(f, a...)
		r.Detail = w.Dump()
	}
	if v := w.Violations(); len(v) > 0 {
		fail("%s", v[0])
		return
	}
	multi := false
	for name, h := range map[string]interface {
		AcceptedBytes() []byte
		Concurrent() (bool, bool)
	}{"client": w.A.Out(), "server": w.B.Out()} {
		cw, cr := h.Concurrent()
		if cw {
			fail("the %s transport saw two writes in flight at once", name)
			return
		}
		if cr {
			fail("a transport saw two reads in flight at once")
			return
		}
		b := h.AcceptedBytes()
		log := parseWire(b)
		if log.Problem != "" {
			fail("bytes handed to the %s transport are not a valid frame stream: %s", name, stable(log.Problem))
			r.Detailf("%s", log.Problem)
			return
		}
		if log.Trail > 0 && !w.Closed() && !w.A.Failed() {
			fail("a partial frame was left on the %s transport although no write was rejected", name)
			return
		}
		if err := readerAccepts(b); err != nil {
			fail("the current reader rejects the %s side's byte stream", name)
			r.Detailf("%v", err)
			return
		}
		if len(log.Frames) > 8 {
			multi = true
		}
	}
	if w.A.Closes() > 1 || w.B.Closes() > 1 {
		fail("a transport was closed more than once")
		return
	}
	if forced > 0 {
		r.Label("forced_close")
	}
	if len(c.Cfg.Points) > 0 {
		r.Label("points")
	}
	if len(c.RPCs) > 1 {
		r.Label("consecutive_streams")
	}
	if w.Closed() {
		r.Label("conn_closed")
	}
	r.NonTrivial = multi && (len(c.RPCs) > 1 || len(c.Cfg.Points) > 0)
	r.Key = strings.Join(w.Trace, ",") + fmt.Sprintf("|%+v|%+v", c.Cfg, c.RPCs)
	r.Sample = map[string]any{"cfg": c.Cfg, "rpcs": c.RPCs, "trace": clipTrace(w.Trace)}
	return
}

// stable strips the numbers out of a wire-log problem so that rapid can shrink across instances.
func stable(s string) string {
	if i := strings.IndexAny(s, ":<"); i > 0 {
		return strings.TrimSpace(s[:i])
	}
	return s
}

func TestC07FrameStream(t *testing.T) {
	pbt.Check(t, pbt.Prop[c06Case]{ID: "C07", Name: "frame_stream", Gen: genC07, Run: runC07})
}
