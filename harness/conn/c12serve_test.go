package conn

import (
	"context"
	"errors"
	"fmt"
	"strings"
	"testing"

	"pgregory.net/rapid"
	"storj.io/drpc"
	"storj.io/drpc/drpcconn"
	"storj.io/drpc/drpcmanager"
	"storj.io/drpc/drpcserver"

	"verif/pbt"
	"verif/sim"
)

// C12, server part: Serve returns only after every connection it accepted has been fully torn down.

type serveConn struct {
	// State the connection is brought to before the stop: 0 idle (accepted, no RPC), 1 handler blocked
	// in Recv, 2 handler blocked in Send (client not reading, transport stalled), 3 RPC finished, 4 RPC finished and
	// the client has gone away (the server side's manager has shut itself down before the stop)
	State int
}

type c12ServeCase struct {
	Soft    bool
	Conns   []serveConn
	Stop    string // "ctx" (cancel Serve's context) or "listener" (Accept fails)
	Pending bool   // one more connection is offered exactly when the stop happens
	// InAccept (with Pending): the late connection has been taken by Accept, which has not returned yet when the
	// stop happens (otherwise Serve is held right after Accept returned)
	InAccept bool
	Choices  []int
	// SlowClose: closing a server-side transport takes time (its Close is held after the pending I/O was let go until
	// the harness has looked whether Serve returned meanwhile)
	SlowClose bool
}

type blockHandler struct{ started chan string }

func (h blockHandler) HandleRPC(stream drpc.Stream, rpc string) error {
	var b []byte
	switch rpc {
	case "recv":
		for {
			if err := stream.MsgRecv(&b, sim.RawEnc{}); err != nil {
				return err
			}
		}
	case "send":
		p := make([]byte, 9000)
		for i := 0; i < 100; i++ {
			if err := stream.MsgSend(&p, sim.RawEnc{}); err != nil {
				return err
			}
		}
		return nil
	default:
		if err := stream.MsgRecv(&b, sim.RawEnc{}); err != nil {
			return err
		}
		return stream.MsgSend(&b, sim.RawEnc{})
	}
}

func runC12Serve(c c12ServeCase) (r pbt.Result) {
	var clock int64
	// goroutines an earlier (failed) case of this process left behind are not this case's
	inherited := map[int64]bool{}
	for _, g := range sim.DrpcGoroutines(sim.Snapshot()) {
		inherited[g.ID] = true
	}
	own := func(gs []sim.GInfo) (out []sim.GInfo) {
		for _, g := range sim.DrpcGoroutines(gs) {
			if !inherited[g.ID] {
				out = append(out, g)
			}
		}
		return out
	}
	lis := sim.NewListener()
	mopts := drpcmanager.Options{SoftCancel: c.Soft}
	srv := drpcserver.NewWithOptions(blockHandler{}, drpcserver.Options{Manager: mopts})
	ctx, cancel := context.WithCancel(context.Background())
	defer cancel()
	type pair struct {
		a, b *sim.End
		conn *drpcconn.Conn
	}
	var pairs []*pair
	// recorded by the goroutine that calls Serve, at the instant Serve returns
	type atReturn struct {
		err        error
		closes     []int
		closesDone []int
		serveOnes  int
		returnedAt int64
	}
	retCh := make(chan atReturn, 1)
	go func() {
		err := srv.Serve(ctx, lis)
		ar := atReturn{err: err}
		for _, c := range lis.Accepted() {
			ar.closes = append(ar.closes, c.(*sim.End).Closes())
			ar.closesDone = append(ar.closesDone, c.(*sim.End).ClosesDone())
		}
		for _, g := range sim.Snapshot() {
			if !inherited[g.ID] && strings.Contains(g.Frames, "drpcserver.(*Server).ServeOne") {
				ar.serveOnes++
			}
		}
		retCh <- ar
	}()
	fail := func(f string, a ...any) {
		r.Fail = fmt.Sprintf(f, a...)
		var sb strings.Builder
		for _, g := range own(sim.Snapshot()) {
			sb.WriteString(g.Frames + "\n\n")
		}
		r.Detail = fmt.Sprintf("case=%+v\n%s", c, sb.String())
	}
	// move every transport until nothing moves (accept + deliver everything, except stalled directions)
	stalled := map[*sim.End]bool{}
	pump := func() {
		for i := 0; i < 10000; i++ {
			sim.WaitQuiescent()
			moved := false
			for _, p := range pairs {
				for _, e := range []*sim.End{p.a, p.b} {
					if stalled[e] {
						continue
					}
					if e.Out().CanAccept() {
						e.Out().Accept(0)
						moved = true
					}
					if e.Out().CanDeliver() {
						e.Out().Deliver(0)
						moved = true
					}
				}
			}
			if !moved {
				return
			}
		}
	}
	type call struct {
		cancel func()
		done   chan error
	}
	var calls []call
	releaseClose := make(chan struct{})
	released := false
	release := func() {
		if !released {
			released = true
			close(releaseClose)
		}
	}
	defer release()
	for _, sc := range c.Conns {
		a, b := sim.Pipe(&clock)
		if c.SlowClose {
			b.OnClosing = func() { <-releaseClose }
		}
		p := &pair{a: a, b: b}
		pairs = append(pairs, p)
		offered := make(chan bool, 1)
		go func() { offered <- lis.Offer(b) }()
		sim.WaitQuiescent()
		if !<-offered {
			fail("harness: listener refused a connection before the stop")
			return
		}
		p.conn = drpcconn.NewWithOptions(a, drpcconn.Options{Manager: mopts})
		cctx, ccancel := context.WithCancel(context.Background())
		cl := call{cancel: ccancel, done: make(chan error, 1)}
		calls = append(calls, cl)
		switch sc.State {
		case 0:
			cl.done <- nil
		case 1: // handler blocks in Recv: open a stream, send nothing more
			go func() {
				st, err := p.conn.NewStream(cctx, "recv", sim.RawEnc{})
				if err == nil {
					x := []byte("x")
					err = st.MsgSend(&x, sim.RawEnc{})
				}
				cl.done <- err
			}()
		case 2: // handler blocks in Send: the client never reads and the server->client direction stalls
			stalled[b] = true
			go func() {
				st, err := p.conn.NewStream(cctx, "send", sim.RawEnc{})
				if err == nil {
					x := []byte("x")
					err = st.MsgSend(&x, sim.RawEnc{})
				}
				cl.done <- err
			}()
		case 3, 4:
			go func() {
				in, out := []byte("ping"), []byte(nil)
				cl.done <- p.conn.Invoke(cctx, "echo", sim.RawEnc{}, &in, &out)
			}()
		}
		pump()
		if sc.State == 4 {
			go p.conn.Close()
			pump()
		}
	}
	pump()
	var latePair *pair
	lateOffered := make(chan bool, 1)
	var pts *sim.Points
	var releaseAccept func()
	defer func() {
		if releaseAccept != nil {
			releaseAccept()
		}
	}()
	if c.Pending {
		// hold Serve between Accept and starting the per-connection goroutine while the stop happens
		pts = sim.NewPoints([]string{"server.Serve.accepted"})
		pts.Install()
		defer pts.Uninstall()
		if c.InAccept {
			releaseAccept = lis.HoldNextAccept()
		}
		a, b := sim.Pipe(&clock)
		if c.SlowClose {
			b.OnClosing = func() { <-releaseClose }
		}
		latePair = &pair{a: a, b: b}
		go func() { lateOffered <- lis.Offer(b) }()
		sim.WaitQuiescent()
	}
	// stop the server
	switch c.Stop {
	case "ctx":
		cancel()
	default:
		lis.Fail(errors.New("accept failed"))
	}
	if releaseAccept != nil {
		pump()
		releaseAccept()
		releaseAccept = nil
	}
	if pts != nil {
		pump()
		for _, a := range pts.Parked() {
			pts.Release(a)
		}
		pts.Uninstall()
	}
	// the stalled direction stays stalled: Serve must still return because closing the transport
	// releases the pending I/O
	for k := range stalled {
		_ = k
	}
	pump()
	sim.WaitQuiescent()
	var ar atReturn
	if c.SlowClose {
		// every Close of a server-side transport that has begun is still in progress. Serve may not have returned
		// unless no accepted connection needed closing.
		select {
		case ar = <-retCh:
			for i, n := range ar.closesDone {
				if n != 1 {
					fail("Serve returned while the Close of an accepted connection's transport was still in progress")
					r.Detailf("conn %d: Close calls begun %d, returned %d", i, ar.closes[i], n)
					return
				}
			}
			retCh <- ar
		default:
		}
		release()
		pump()
		sim.WaitQuiescent()
		r.Label("slow_close")
	}
	select {
	case ar = <-retCh:
	default:
		if c.Stop == "listener" {
			// a failing listener makes Serve return its error only after the tracked connections are done;
			// idle or blocked connections keep it waiting until the peers go away: close the clients
			for _, p := range pairs {
				go p.conn.Close()
			}
			pump()
			sim.WaitQuiescent()
			select {
			case ar = <-retCh:
			default:
				fail("Serve did not return after the listener failed and every client went away")
				return
			}
		} else {
			fail("Serve did not return after its context was cancelled")
			return
		}
	}
	if c.Pending {
		if <-lateOffered {
			pairs = append(pairs, latePair)
			// accepted in the same instant as the stop: it must have been torn down too
			if latePair.b.Closes() != 1 {
				fail("a connection accepted just before the stop was not closed exactly once when Serve returned")
				r.Detailf("closes=%d", latePair.b.Closes())
				return
			}
			r.Label("late_connection_accepted")
			if c.InAccept {
				r.Label("stop_while_accept_was_returning")
			}
		} else {
			r.Label("late_connection_refused")
		}
	}
	for i, n := range ar.closes {
		if n != 1 {
			fail("Serve returned although an accepted connection's transport was not closed exactly once")
			r.Detailf("conn %d closed %d times", i, n)
			return
		}
	}
	if ar.serveOnes != 0 {
		fail("Serve returned while a per-connection goroutine was still alive")
		r.Detailf("%d ServeOne goroutines", ar.serveOnes)
		return
	}
	// clients: go away; nothing of the library may remain
	for _, p := range pairs {
		if p.conn != nil {
			go p.conn.Close()
		}
	}
	for _, cl := range calls {
		cl.cancel()
	}
	for k := range stalled {
		delete(stalled, k)
	}
	pump()
	gs := sim.WaitQuiescent()
	if leaks := own(gs); len(leaks) > 0 {
		fail("library goroutines left behind after Serve returned and the clients closed")
		return
	}
	busy := 0
	for _, sc := range c.Conns {
		if sc.State == 1 || sc.State == 2 {
			busy++
		}
	}
	r.Label("stop_" + c.Stop)
	if busy > 0 {
		r.Label("handlers_running")
	}
	r.NonTrivial = len(c.Conns) >= 1 && (busy > 0 || c.Pending)
	r.Key = fmt.Sprintf("%+v", c)
	return
}

func TestC12Serve(t *testing.T) {
	gen := func(t *rapid.T) c12ServeCase {
		c := c12ServeCase{Soft: rapid.Bool().Draw(t, "soft"), Stop: rapid.SampledFrom([]string{"ctx", "ctx", "listener"}).Draw(t, "stop"), Pending: rapid.Bool().Draw(t, "pending")}
		c.Conns = rapid.SliceOfN(rapid.Custom(func(t *rapid.T) serveConn { return serveConn{State: rapid.IntRange(0, 4).Draw(t, "state")} }), 0, 3).Draw(t, "conns")
		c.InAccept = c.Pending && rapid.Bool().Draw(t, "inaccept")
		c.SlowClose = rapid.Bool().Draw(t, "slowclose")
		return c
	}
	pbt.Check(t, pbt.Prop[c12ServeCase]{ID: "C12", Name: "serve", Gen: gen, Run: runC12Serve})
}
