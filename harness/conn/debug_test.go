package conn

import (
	"encoding/json"
	"os"
	"testing"
)

func TestDebugReplayC04(t *testing.T) {
	p := os.Getenv("DEBUG_CASE")
	if p == "" {
		t.Skip()
	}
	b, _ := os.ReadFile(p)
	var sc struct{ Case c04Case }
	if err := json.Unmarshal(b, &sc); err != nil {
		t.Fatal(err)
	}
	for i := 0; i < 10; i++ {
		r := runC04(sc.Case)
		t.Logf("run %d: fail=%q", i, r.Fail)
	}
}
