package meta

import (
	"bytes"
	"encoding/binary"
	"encoding/hex"
	"errors"
	"fmt"
	"testing"
	"time"

	"pgregory.net/rapid"
	"storj.io/drpc/drpcerr"
	"storj.io/drpc/drpcwire"

	"verif/gens"
	"verif/pbt"
)

// runErrCodec: MarshalError lays out 8 bytes big-endian code + message; Unmarshal gives
// back an error with exactly that message and code; drpcerr.Code finds a code attached
// at any wrapping depth.
func runErrCodec(s gens.ErrSpec) (r pbt.Result) {
	err := s.Build()
	done := make(chan struct{})
	var code uint64
	go func() { defer close(done); code = drpcerr.Code(err) }()
	select {
	case <-done:
	case <-time.After(20 * time.Second):
		r.Failf("drpcerr.Code did not return (unbounded unwrap loop)")
		return
	}
	want, fixed := s.ExpectedCode()
	if s.Odd == "long_chain" {
		// 130 transparent wrapper layers over the (possibly coded) error: by the statement ("attached at any depth of
		// wrapping") the code is the attached one. drpcerr.Code gives up after 100 steps - known finding F31.
		if pbt.Excluded("F31") {
			r.Excluded = "F31"
		} else {
			want, fixed = 0, true
			if s.HasCode {
				want = s.Code
			}
		}
	}
	if fixed && code != want {
		r.Failf("drpcerr.Code does not report the attached code")
		r.Detailf("spec=%+v got=%d want=%d", s, code, want)
		return
	}
	if s.HasCode && s.Code != 0 {
		// a coded error (say a package-level sentinel) keeps its code when a differently coded error is derived from it
		sentinel := drpcerr.WithCode(errors.New("sentinel"), s.Code)
		other := s.Code + 1
		if other == 0 {
			other = 1
		}
		derived := drpcerr.WithCode(sentinel, other)
		if drpcerr.Code(sentinel) != s.Code {
			r.Failf("WithCode changed the code of the error it was given")
			r.Detailf("sentinel code %d, derived with %d, sentinel now reports %d", s.Code, other, drpcerr.Code(sentinel))
			return
		}
		if drpcerr.Code(derived) != other {
			r.Failf("drpcerr.Code does not report the attached code")
			r.Detailf("derived from a coded error: got %d want %d", drpcerr.Code(derived), other)
			return
		}
	}
	msg := err.Error()
	data := drpcwire.MarshalError(err)
	if len(data) != 8+len(msg) || binary.BigEndian.Uint64(data[:8]) != code || string(data[8:]) != msg {
		r.Failf("MarshalError layout is not 8-byte big-endian code followed by the message")
		r.Detailf("data=%x", data)
		return
	}
	back := drpcwire.UnmarshalError(append([]byte(nil), data...))
	if back == nil {
		r.Failf("UnmarshalError returned nil")
		return
	}
	if back.Error() != msg {
		r.Failf("error message changed across MarshalError/UnmarshalError")
		r.Detailf("got %q want %q", back.Error(), msg)
		return
	}
	if got := drpcerr.Code(back); got != code {
		r.Failf("error code changed across MarshalError/UnmarshalError")
		r.Detailf("got %d want %d", got, code)
		return
	}
	if len(s.Layers) >= 2 {
		r.Label("depth_2plus")
		r.NonTrivial = true
	}
	for _, l := range s.Layers {
		if l == 6 && s.OuterCode != 0 && s.HasCode && s.OuterCode != s.Code {
			r.Label("recoded_further_out")
			r.NonTrivial = true
			break
		}
	}
	if s.HasCode && s.Code >= 1<<32 {
		r.Label("code_ge_2_32")
		r.NonTrivial = true
	}
	if len(s.Msg) >= 128 {
		r.Label("long_msg")
		r.NonTrivial = true
	}
	for _, b := range s.Msg {
		if b >= 0x80 || b < 0x20 || b == '%' {
			r.Label("special_bytes")
			r.NonTrivial = true
			break
		}
	}
	if s.Odd != "" {
		r.Label("odd_" + s.Odd)
		r.NonTrivial = true
	}
	if !fixed {
		r.Label("code_dontcare")
	}
	r.Key = fmt.Sprintf("%x/%v/%d/%v/%d/%s", s.Msg, s.HasCode, s.Code, s.Layers, s.OuterCode, s.Odd)
	return
}

func TestC10ErrCodec(t *testing.T) {
	pbt.Check(t, pbt.Prop[gens.ErrSpec]{ID: "C10", Name: "codec", Gen: pbt.G(gens.GenErr(70000, true)), Run: runErrCodec})
}

// arbitrary bytes into UnmarshalError: total; >= 8 bytes means code = first 8 bytes BE and
// message = the rest; shorter means an error mentioning the data, code 0.
func runUnmarshalErr(c decodeCase) (r pbt.Result) {
	in := append([]byte(nil), c.B...)
	err := drpcwire.UnmarshalError(in)
	if !bytes.Equal(in, c.B) {
		r.Failf("UnmarshalError modified its input")
		return
	}
	if err == nil {
		r.Failf("UnmarshalError returned nil")
		return
	}
	if len(c.B) >= 8 {
		if err.Error() != string(c.B[8:]) || drpcerr.Code(err) != binary.BigEndian.Uint64(c.B[:8]) {
			r.Failf("UnmarshalError does not decode code+message")
			r.Detailf("in=%x msg=%q code=%d", c.B, err.Error(), drpcerr.Code(err))
			return
		}
		r.Label("full")
	} else {
		if drpcerr.Code(err) != 0 {
			r.Failf("short error data produced a code")
			return
		}
		r.Label("short")
	}
	r.NonTrivial = len(c.B) > 0
	r.Key = hex.EncodeToString(c.B)
	return
}

func TestC10UnmarshalErr(t *testing.T) {
	gen := rapid.Custom(func(t *rapid.T) decodeCase {
		if rapid.Bool().Draw(t, "short") {
			return decodeCase{"short", rapid.SliceOfN(rapid.Byte(), 0, 9).Draw(t, "b")}
		}
		b := make([]byte, 8)
		binary.BigEndian.PutUint64(b, rapid.Uint64().Draw(t, "code"))
		return decodeCase{"full", append(b, gens.GenMsg(5000).Draw(t, "msg")...)}
	})
	pbt.Check(t, pbt.Prop[decodeCase]{ID: "C10", Name: "unmarshal", Gen: pbt.G(gen), Run: runUnmarshalErr})
}
