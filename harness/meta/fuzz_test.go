package meta

import (
	"testing"

	"verif/ref"
)

func FuzzMetadataDecode(f *testing.F) {
	f.Add([]byte{})
	f.Add(ref.EncodeMetadataProto([]ref.Pair{{Key: "auth", Value: "tok"}, {Key: "", Value: ""}}))
	f.Add([]byte{10, 0xff, 0xff, 0xff, 0xff, 0xff, 0xff, 0xff, 0xff, 0xff, 0x01, 10, 1, 'k', 18, 1, 'v'})
	f.Add([]byte{10, 6, 10, 1, 'k', 18, 0x80, 0x01})
	f.Add([]byte("\n\x0e\n\x80\x00\x12\x80\x80\x80\x80\x80\x80\x80\x80\x800")) // accepted by Decode (varint read modulo 2^64), not by protowire
	f.Fuzz(func(t *testing.T, b []byte) {
		r := runMetaDecode(decodeCase{"fuzz", b})
		if r.Fail != "" {
			t.Fatalf("%s\n%s", r.Fail, r.Detail)
		}
	})
}

func FuzzUnmarshalError(f *testing.F) {
	f.Add([]byte("short"))
	f.Add([]byte{0, 0, 0, 0, 0, 0, 0, 12, 'm', 's', 'g', '%', 's'})
	f.Fuzz(func(t *testing.T, b []byte) {
		r := runUnmarshalErr(decodeCase{"fuzz", b})
		if r.Fail != "" {
			t.Fatalf("%s\n%s", r.Fail, r.Detail)
		}
	})
}
