// Package meta holds the codec halves of C11 (metadata) and C10 (errors) and
// the decoder targets of C13.
package meta

import (
	"bytes"
	"encoding/hex"
	"fmt"
	"sort"
	"testing"

	"google.golang.org/protobuf/proto"
	"google.golang.org/protobuf/reflect/protodesc"
	"google.golang.org/protobuf/reflect/protoreflect"
	"google.golang.org/protobuf/types/descriptorpb"
	"google.golang.org/protobuf/types/dynamicpb"
	"pgregory.net/rapid"
	"storj.io/drpc/drpcmetadata"

	"verif/gens"
	"verif/pbt"
	"verif/ref"
)

// the real protobuf runtime as a second, independent codec: a proto2 file (no
// UTF-8 validation of strings) with message Metadata { map<string,string> entries = 1; }
var metaDesc = func() protoreflect.MessageDescriptor {
	s := proto.String
	lbl := descriptorpb.FieldDescriptorProto_LABEL_OPTIONAL.Enum()
	rep := descriptorpb.FieldDescriptorProto_LABEL_REPEATED.Enum()
	str := descriptorpb.FieldDescriptorProto_TYPE_STRING.Enum()
	msg := descriptorpb.FieldDescriptorProto_TYPE_MESSAGE.Enum()
	fd := &descriptorpb.FileDescriptorProto{
		Name: s("verifmeta.proto"), Package: s("verifmeta"), Syntax: s("proto2"),
		MessageType: []*descriptorpb.DescriptorProto{{
			Name:  s("Metadata"),
			Field: []*descriptorpb.FieldDescriptorProto{{Name: s("entries"), Number: proto.Int32(1), Label: rep, Type: msg, TypeName: s(".verifmeta.Metadata.EntriesEntry")}},
			NestedType: []*descriptorpb.DescriptorProto{{
				Name:    s("EntriesEntry"),
				Options: &descriptorpb.MessageOptions{MapEntry: proto.Bool(true)},
				Field: []*descriptorpb.FieldDescriptorProto{
					{Name: s("key"), Number: proto.Int32(1), Label: lbl, Type: str},
					{Name: s("value"), Number: proto.Int32(2), Label: lbl, Type: str},
				},
			}},
		}},
	}
	f, err := protodesc.NewFile(fd, nil)
	if err != nil {
		panic(err)
	}
	return f.Messages().Get(0)
}()

func pbEncode(m map[string]string, deterministic bool) []byte {
	msg := dynamicpb.NewMessage(metaDesc)
	mp := msg.Mutable(metaDesc.Fields().Get(0)).Map()
	for k, v := range m {
		mp.Set(protoreflect.ValueOfString(k).MapKey(), protoreflect.ValueOfString(v))
	}
	b, err := proto.MarshalOptions{Deterministic: deterministic}.Marshal(msg)
	if err != nil {
		panic(err)
	}
	return b
}

func pbDecode(b []byte) (map[string]string, error) {
	msg := dynamicpb.NewMessage(metaDesc)
	if err := proto.Unmarshal(b, msg); err != nil {
		return nil, err
	}
	out := map[string]string{}
	msg.Get(metaDesc.Fields().Get(0)).Map().Range(func(k protoreflect.MapKey, v protoreflect.Value) bool {
		out[k.String()] = v.String()
		return true
	})
	return out, nil
}

type kv struct{ K, V []byte }

type mapCase struct {
	Pairs  []kv // duplicates allowed: later wins when building the map
	Prefix []byte
}

func (c mapCase) build() map[string]string {
	m := map[string]string{}
	for _, p := range c.Pairs {
		m[string(p.K)] = string(p.V)
	}
	return m
}

func sameMap(a, b map[string]string) bool {
	if len(a) != len(b) {
		return false
	}
	for k, v := range a {
		if w, ok := b[k]; !ok || w != v {
			return false
		}
	}
	return true
}

func descMap(m map[string]string) string {
	var ks []string
	for k := range m {
		ks = append(ks, k)
	}
	sort.Strings(ks)
	s := ""
	for _, k := range ks {
		s += fmt.Sprintf("%q=%q ", k, m[k])
	}
	return s
}

func runMetaRoundTrip(c mapCase) (r pbt.Result) {
	m := c.build()
	pre := append(make([]byte, 0, len(c.Prefix)+4), c.Prefix...)
	enc, err := drpcmetadata.Encode(pre, m)
	if err != nil {
		r.Failf("Encode returned an error")
		r.Detailf("%v", err)
		return
	}
	if len(enc) < len(c.Prefix) || !bytes.Equal(enc[:len(c.Prefix)], c.Prefix) {
		r.Failf("Encode altered the buffer it appends to")
		return
	}
	body := enc[len(c.Prefix):]
	// 1. round trip through the library
	got, err := drpcmetadata.Decode(append([]byte(nil), body...))
	if err != nil || !sameMap(got, m) {
		r.Failf("Decode(Encode(m)) != m")
		r.Detailf("m=%s got=%s err=%v bytes=%x", descMap(m), descMap(got), err, body)
		return
	}
	// 2. it is the protobuf encoding: protowire reference
	pairs, err := ref.DecodeMetadataProto(body)
	if err != nil {
		r.Failf("Encode output is not valid protobuf wire format")
		r.Detailf("m=%s err=%v bytes=%x", descMap(m), err, body)
		return
	}
	if len(pairs) != len(m) {
		r.Failf("Encode output does not hold exactly one entry per key")
		return
	}
	for _, p := range pairs {
		if v, ok := m[p.Key]; !ok || v != p.Value {
			r.Failf("Encode output decodes (protowire) to a different map")
			r.Detailf("m=%s pair=%q=%q", descMap(m), p.Key, p.Value)
			return
		}
	}
	// canonical size: exactly what a protobuf runtime emits for these entries in this order
	if want := ref.EncodeMetadataProto(pairs); !bytes.Equal(want, body) {
		r.Failf("Encode bytes differ from the protobuf encoding of the same entries")
		r.Detailf("got %x want %x", body, want)
		return
	}
	// 3. the real protobuf runtime reads it
	pm, err := pbDecode(body)
	if err != nil || !sameMap(pm, m) {
		r.Failf("protobuf runtime decodes Encode output to a different map")
		r.Detailf("m=%s pb=%s err=%v", descMap(m), descMap(pm), err)
		return
	}
	// 4. what the protobuf runtime emits is read by Decode
	for _, det := range []bool{true, false} {
		pb := pbEncode(m, det)
		back, err := drpcmetadata.Decode(pb)
		if err != nil || !sameMap(back, m) {
			r.Failf("Decode cannot read the protobuf runtime's encoding of the map")
			r.Detailf("m=%s back=%s err=%v bytes=%x", descMap(m), descMap(back), err, pb)
			return
		}
	}
	empty, long, binary := false, false, false
	for k, v := range m {
		if k == "" || v == "" {
			empty = true
		}
		if len(k) >= 128 || len(v) >= 128 {
			long = true
		}
		for _, s := range []string{k, v} {
			for i := 0; i < len(s); i++ {
				if s[i] < 0x20 || s[i] >= 0x80 {
					binary = true
				}
			}
		}
	}
	if empty {
		r.Label("empty_string")
	}
	if long {
		r.Label("long_string")
	}
	if binary {
		r.Label("binary")
	}
	r.Label(fmt.Sprintf("pairs_%d", min(len(m), 4)))
	r.NonTrivial = len(m) >= 1 && (empty || long || binary || len(m) >= 2)
	r.Key = hex.EncodeToString(ref.EncodeMetadataProto(sortedPairs(m)))
	return
}

func sortedPairs(m map[string]string) []ref.Pair {
	var ps []ref.Pair
	for k, v := range m {
		ps = append(ps, ref.Pair{Key: k, Value: v})
	}
	sort.Slice(ps, func(i, j int) bool { return ps[i].Key < ps[j].Key })
	return ps
}

func genStr() *rapid.Generator[[]byte] {
	return rapid.OneOf(
		rapid.SampledFrom([][]byte{nil, []byte("a"), []byte("auth"), []byte("auth2"), []byte("aut"), {0}, {0xff}, []byte("k=v"), []byte("%41"), []byte("ü")}),
		rapid.SliceOfN(rapid.Byte(), 0, 12),
		gens.GenMsg(1100),
	)
}

func genMapCase() *rapid.Generator[mapCase] {
	return rapid.Custom(func(t *rapid.T) mapCase {
		var c mapCase
		c.Pairs = rapid.SliceOfN(rapid.Custom(func(t *rapid.T) kv { return kv{genStr().Draw(t, "k"), genStr().Draw(t, "v")} }), 0, 8).Draw(t, "pairs")
		c.Prefix = rapid.SliceOfN(rapid.Byte(), 0, 6).Draw(t, "prefix")
		return c
	})
}

func TestC11RoundTrip(t *testing.T) {
	pbt.Check(t, pbt.Prop[mapCase]{ID: "C11", Name: "codec_roundtrip", Gen: pbt.G(genMapCase()), Run: runMetaRoundTrip})
}

// ---- arbitrary bytes into Decode -----------------------------------------------------

type decodeCase struct {
	Origin string
	B      []byte
}

func runMetaDecode(c decodeCase) (r pbt.Result) {
	in := append([]byte(nil), c.B...)
	got, err := drpcmetadata.Decode(in)
	if !bytes.Equal(in, c.B) {
		r.Failf("Decode modified its input")
		return
	}
	r.Label("origin_" + c.Origin)
	if err != nil {
		if got != nil {
			r.Failf("Decode returned both a map and an error")
			return
		}
		r.Label("rejected")
	} else {
		r.Label("accepted")
		// soundness: whatever Decode accepts, the protobuf rules read the same way
		pairs, perr := ref.DecodeMetadataProto(c.B)
		if perr != nil {
			// The statement asks for "a map or an error" on arbitrary bytes, nothing more. Decode is more lenient
			// than the protobuf rules in places (a ten-byte varint whose top bits overflow is read modulo 2^64, as
			// drpcwire.ReadVarint does everywhere): accepting such bytes is not a violation. Found by the native
			// fuzzer in a thorough run; this used to be reported as a failure.
			r.Label("accepted_although_not_protobuf")
		}
		want := map[string]string{}
		for _, p := range pairs {
			want[p.Key] = p.Value
		}
		if perr == nil && !sameMap(got, want) {
			r.Failf("Decode result differs from the protobuf reading of the same bytes")
			r.Detailf("bytes=%x got=%s want=%s", c.B, descMap(got), descMap(want))
			return
		}
		// and it re-encodes to something that decodes to itself
		re, _ := drpcmetadata.Encode(nil, got)
		back, err2 := drpcmetadata.Decode(re)
		if err2 != nil || !sameMap(back, got) {
			r.Failf("decoded map does not survive re-encoding")
			return
		}
	}
	r.NonTrivial = len(c.B) >= 2
	r.Key = hex.EncodeToString(c.B)
	return
}

func genDecodeBytes() *rapid.Generator[decodeCase] {
	return rapid.Custom(func(t *rapid.T) decodeCase {
		valid := func() []byte {
			m := genMapCase().Draw(t, "m")
			var ps []ref.Pair
			for _, p := range m.Pairs {
				ps = append(ps, ref.Pair{Key: string(p.K), Value: string(p.V)})
			}
			return ref.EncodeMetadataProto(ps)
		}
		// a length written with more bytes than needed (which protobuf readers accept), on the tenth byte possibly with
		// bits beyond 2^64 (which they do not, while drpc reads varints modulo 2^64)
		padded := func(b []byte, v uint64) []byte {
			enc := ref.AppendUvarint(nil, v)
			n := rapid.IntRange(len(enc), 10).Draw(t, "varint_len")
			for len(enc) < n {
				enc[len(enc)-1] |= 0x80
				enc = append(enc, 0)
			}
			if n == 10 && rapid.IntRange(0, 2).Draw(t, "overflow") == 0 {
				enc[9] |= rapid.SampledFrom([]byte{0x02, 0x30, 0x7e, 0x40}).Draw(t, "overflow_bits")
			}
			return append(b, enc...)
		}
		switch rapid.IntRange(0, 7).Draw(t, "origin") {
		case 7:
			k, v := genStr().Draw(t, "k"), genStr().Draw(t, "v")
			var ent []byte
			ent = padded(append(ent, 10), uint64(len(k)))
			ent = append(ent, k...)
			ent = padded(append(ent, 18), uint64(len(v)))
			ent = append(ent, v...)
			return decodeCase{"padded_varint", append(padded([]byte{10}, uint64(len(ent))), ent...)}
		case 0:
			return decodeCase{"random", rapid.SliceOfN(rapid.Byte(), 0, 30).Draw(t, "b")}
		case 1:
			n := rapid.IntRange(0, 16).Draw(t, "n")
			b := make([]byte, n)
			for i := range b {
				b[i] = rapid.SampledFrom([]byte{10, 18, 0, 1, 2, 3, 0x7f, 0x80, 0xff, 26}).Draw(t, "b")
			}
			return decodeCase{"tagsoup", b}
		case 2:
			b := valid()
			if len(b) == 0 {
				return decodeCase{"truncated", b}
			}
			return decodeCase{"truncated", b[:rapid.IntRange(0, len(b)).Draw(t, "cut")]}
		case 3:
			b := valid()
			if len(b) > 0 {
				i := rapid.IntRange(0, len(b)-1).Draw(t, "pos")
				b[i] ^= 1 << uint(rapid.IntRange(0, 7).Draw(t, "bit"))
			}
			return decodeCase{"bitflip", b}
		case 4: // huge declared lengths at each of the three length positions
			huge := rapid.SampledFrom([]uint64{1 << 31, 1<<32 - 1, 1 << 32, 1<<63 - 1, 1 << 63, 1<<64 - 1}).Draw(t, "huge")
			hv := ref.AppendUvarint(nil, huge)
			var b []byte
			switch rapid.IntRange(0, 2).Draw(t, "where") {
			case 0:
				b = append([]byte{10}, hv...)
				b = append(b, 10, 1, 'k', 18, 1, 'v')
			case 1:
				inner := append([]byte{10}, hv...)
				inner = append(inner, 'k', 18, 1, 'v')
				b = append([]byte{10, byte(len(inner))}, inner...)
			default:
				inner := append([]byte{10, 1, 'k', 18}, hv...)
				inner = append(inner, 'v')
				b = append([]byte{10, byte(len(inner))}, inner...)
			}
			return decodeCase{"hugelen", b}
		case 5: // valid protobuf that is not in the strict shape (reordered / missing / unknown fields)
			k, v := genStr().Draw(t, "k"), genStr().Draw(t, "v")
			var ent []byte
			switch rapid.IntRange(0, 3).Draw(t, "shape") {
			case 0: // value first
				ent = append(ent, 18)
				ent = ref.AppendUvarint(ent, uint64(len(v)))
				ent = append(ent, v...)
				ent = append(ent, 10)
				ent = ref.AppendUvarint(ent, uint64(len(k)))
				ent = append(ent, k...)
			case 1: // key only
				ent = append(ent, 10)
				ent = ref.AppendUvarint(ent, uint64(len(k)))
				ent = append(ent, k...)
			case 2: // unknown field 3 varint
				ent = append(ent, 10, 0, 18, 0, 24, 5)
			default: // empty entry
			}
			b := append([]byte{10}, ref.AppendUvarint(nil, uint64(len(ent)))...)
			return decodeCase{"loose_protobuf", append(b, ent...)}
		default:
			return decodeCase{"valid", valid()}
		}
	})
}

func TestC11Decode(t *testing.T) {
	pbt.Check(t, pbt.Prop[decodeCase]{ID: "C11", Name: "codec_decode", Gen: pbt.G(genDecodeBytes()), Run: runMetaDecode})
}

func min(a, b int) int {
	if a < b {
		return a
	}
	return b
}
