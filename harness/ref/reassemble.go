package ref

// Packet is a reassembled packet.
type Packet struct {
	Stream, Message uint64
	Kind            uint8
	Control         bool
	Data            []byte
}

// Outcome of reassembling a complete byte stream that ends (with an I/O error
// such as EOF) after its last byte.
type Outcome struct {
	Packets []Packet
	// Protocol is true when the stream is rejected (malformed frame, id going
	// backwards, kind change inside a packet, packet or frame over the
	// maximum); false when everything parseable was consumed and the reader
	// must surface the transport's own error.
	Protocol bool
	// DontCare is set when the verdict for the tail is not fixed by the
	// statement (the id space is exhausted).
	DontCare bool
	Events   []string // what happened, for classification of generated cases
}

const frameOverheadBudget = 31 // 1 control byte + three varints of at most 10 bytes

// Reassemble is the reference for C09, written from its statement:
//   - frames of one id are concatenated into a packet, completed by a done frame;
//   - a frame with a higher id discards an unfinished packet;
//   - ids never go backwards: a frame id below the current packet's id, or not
//     above the id of the last completed packet, is rejected (the first id a
//     peer may use is stream 1, message 1);
//   - the kind is constant within a packet;
//   - a control bit on any frame marks the packet;
//   - a packet whose accumulated payload exceeds max is rejected.
func Reassemble(b []byte, max int) (o Outcome) {
	ev := func(s string) { o.Events = append(o.Events, s) }
	wmS, wmM := uint64(1), uint64(1) // lowest acceptable id
	var cur *Packet
	exhausted := false
	for {
		fr, rem, cls := ParseFrame(b)
		switch cls {
		case Malformed:
			ev("malformed")
			o.Protocol = true
			return
		case NeedMore:
			// incomplete tail: the reader may buffer at most max+overhead bytes of one frame
			switch {
			case len(b) > max+frameOverheadBudget:
				ev("oversize_tail")
				o.Protocol = true
			case len(b) > 0:
				ev("truncated_tail")
			}
			if cur != nil {
				ev("unfinished_at_end")
			}
			return
		}
		b = rem
		less := exhausted || fr.Stream < wmS || (fr.Stream == wmS && fr.Message < wmM)
		if less {
			ev("id_backwards")
			o.Protocol = true
			return
		}
		if cur == nil || cur.Stream != fr.Stream || cur.Message != fr.Message {
			if cur != nil {
				ev("discard_unfinished")
			}
			cur = &Packet{Stream: fr.Stream, Message: fr.Message, Kind: fr.Kind}
			wmS, wmM = fr.Stream, fr.Message
		} else {
			ev("continuation")
			if fr.Kind != cur.Kind {
				ev("kind_change")
				o.Protocol = true
				return
			}
		}
		cur.Control = cur.Control || fr.Control
		cur.Data = append(cur.Data, fr.Data...)
		if len(cur.Data) > max {
			ev("oversize_packet")
			o.Protocol = true
			return
		}
		if fr.Done {
			if fr.Control {
				ev("control_packet")
			}
			o.Packets = append(o.Packets, *cur)
			cur = nil
			// successor of the completed id
			wmM = fr.Message + 1
			if wmM == 0 { // message ids exhausted on this stream
				wmS = fr.Stream + 1
				if wmS == 0 {
					// the largest id has been used: whatever frame follows goes backwards
					ev("ids_exhausted")
					exhausted = true
				}
			}
		}
	}
}
