package ref

import (
	"errors"

	"google.golang.org/protobuf/encoding/protowire"
)

// Pair is one decoded map entry, in wire order.
type Pair struct{ Key, Value string }

// DecodeMetadataProto parses b as the protobuf wire encoding of
//
//	message Metadata { map<string,string> entries = 1; }
//
// following the protobuf encoding rules (entries are length-delimited
// sub-messages with key = field 1, value = field 2; missing fields default to
// ""; unknown fields are skipped; later duplicates win inside an entry).
// It returns the entries in wire order.
func DecodeMetadataProto(b []byte) ([]Pair, error) {
	var out []Pair
	for len(b) > 0 {
		num, typ, n := protowire.ConsumeTag(b)
		if n < 0 {
			return nil, errors.New("bad tag")
		}
		b = b[n:]
		if num == 1 && typ == protowire.BytesType {
			ent, n := protowire.ConsumeBytes(b)
			if n < 0 {
				return nil, errors.New("bad entry")
			}
			b = b[n:]
			var p Pair
			for len(ent) > 0 {
				num, typ, n := protowire.ConsumeTag(ent)
				if n < 0 {
					return nil, errors.New("bad inner tag")
				}
				ent = ent[n:]
				if (num == 1 || num == 2) && typ == protowire.BytesType {
					v, n := protowire.ConsumeBytes(ent)
					if n < 0 {
						return nil, errors.New("bad string")
					}
					ent = ent[n:]
					if num == 1 {
						p.Key = string(v)
					} else {
						p.Value = string(v)
					}
					continue
				}
				n = protowire.ConsumeFieldValue(num, typ, ent)
				if n < 0 {
					return nil, errors.New("bad inner field")
				}
				ent = ent[n:]
			}
			out = append(out, p)
			continue
		}
		n = protowire.ConsumeFieldValue(num, typ, b)
		if n < 0 {
			return nil, errors.New("bad field")
		}
		b = b[n:]
	}
	return out, nil
}

// EncodeMetadataProto emits entries in the given order the way the protobuf
// runtimes do (key and value always present).
func EncodeMetadataProto(pairs []Pair) []byte {
	var b []byte
	for _, p := range pairs {
		var ent []byte
		ent = protowire.AppendTag(ent, 1, protowire.BytesType)
		ent = protowire.AppendString(ent, p.Key)
		ent = protowire.AppendTag(ent, 2, protowire.BytesType)
		ent = protowire.AppendString(ent, p.Value)
		b = protowire.AppendTag(b, 1, protowire.BytesType)
		b = protowire.AppendBytes(b, ent)
	}
	return b
}
