// Package ref holds reference implementations written from the wire
// description (drpcwire/README.md and the statements of C08/C09/C11), never by
// calling the code under test. It imports nothing from storj.io/drpc.
package ref

import "errors"

// Class is the three-way answer of a parser.
type Class int

const (
	NeedMore Class = iota
	OK
	Malformed
)

func (c Class) String() string { return [...]string{"need-more", "ok", "error"}[c] }

// Frame mirrors the wire description: control byte = control<<7 | kind<<1 | done,
// then varint stream id, varint message id, varint length, payload.
type Frame struct {
	Stream, Message uint64
	Kind            uint8
	Done, Control   bool
	Data            []byte
}

var ErrVarint = errors.New("ref: varint longer than 10 bytes")

// Uvarint decodes 7-bit little-endian groups; value = sum g_i * 2^(7i) mod 2^64;
// at most 10 bytes, otherwise Malformed; running out of bytes while the
// continuation bit is set is NeedMore.
func Uvarint(b []byte) (v uint64, n int, c Class) {
	for i := 0; i < 10; i++ {
		if i >= len(b) {
			return 0, 0, NeedMore
		}
		g := uint64(b[i] & 0x7f)
		if 7*i < 64 {
			v |= g << (7 * uint(i)) // bits beyond 2^64 fall off: mod 2^64
		}
		if b[i]&0x80 == 0 {
			return v, i + 1, OK
		}
	}
	return 0, 0, Malformed
}

// AppendUvarint is the canonical (minimal) encoding.
func AppendUvarint(b []byte, v uint64) []byte {
	for {
		g := byte(v & 0x7f)
		v >>= 7
		if v == 0 {
			return append(b, g)
		}
		b = append(b, g|0x80)
	}
}

// ParseFrame is the reference frame parser. Fewer than 4 bytes can never hold a
// complete frame (1 control byte + 3 varints), hence NeedMore. Note that the
// header fields are validated in order, so a malformed varint is only an error
// once it is reached.
func ParseFrame(b []byte) (fr Frame, rem []byte, c Class) {
	if len(b) < 4 {
		return Frame{}, b, NeedMore
	}
	ctl := b[0]
	fr.Done = ctl&1 != 0
	fr.Control = ctl&0x80 != 0
	fr.Kind = (ctl >> 1) & 0x3f
	p := b[1:]
	var vals [3]uint64
	for i := range vals {
		v, n, cls := Uvarint(p)
		if cls != OK {
			return Frame{}, b, cls
		}
		vals[i] = v
		p = p[n:]
	}
	fr.Stream, fr.Message = vals[0], vals[1]
	if vals[2] > uint64(len(p)) {
		return Frame{}, b, NeedMore
	}
	fr.Data = p[:vals[2]]
	return fr, p[vals[2]:], OK
}

// AppendFrame is the reference encoder.
func AppendFrame(b []byte, fr Frame) []byte {
	ctl := (fr.Kind & 0x3f) << 1
	if fr.Done {
		ctl |= 1
	}
	if fr.Control {
		ctl |= 0x80
	}
	b = append(b, ctl)
	b = AppendUvarint(b, fr.Stream)
	b = AppendUvarint(b, fr.Message)
	b = AppendUvarint(b, uint64(len(fr.Data)))
	return append(b, fr.Data...)
}

// IsProperPrefixOfValidFrame decides constructively whether b (classified
// NeedMore) can be extended into a complete frame, and returns such an
// extension (bounded: declared lengths above maxExt are not materialised and
// reported as extendable-in-principle with ext == nil).
func CompleteFrame(b []byte, maxExt int) (full []byte, ok bool, huge bool) {
	out := append([]byte(nil), b...)
	if len(out) == 0 {
		out = append(out, 0)
	}
	p := 1
	var length uint64
	for i := 0; i < 3; i++ {
		// walk/finish varint i
		n := 0
		for {
			if p >= len(out) {
				out = append(out, 0) // terminate the varint with a zero group
			}
			n++
			if n > 10 {
				return nil, false, false
			}
			cont := out[p]&0x80 != 0
			p++
			if !cont {
				break
			}
		}
		if i == 2 {
			v, _, cls := Uvarint(out[p-n:])
			if cls != OK {
				return nil, false, false
			}
			length = v
		}
	}
	have := uint64(len(out) - p)
	if have >= length {
		return out, true, false
	}
	if length-have > uint64(maxExt) {
		return nil, true, true
	}
	out = append(out, make([]byte, length-have)...)
	return out, true, false
}
