package signal

import (
	"errors"
	"fmt"
	"sync"
	"testing"

	"pgregory.net/rapid"
	"storj.io/drpc/drpcsignal"

	"verif/pbt"
)

// C19 under real concurrency. The exhaustive and random checks own the schedule at the scheduling points inside the
// slow paths; an interleaving *inside* a lock-free fast path (for instance between two atomic loads of Get) has no
// point to park at. Here setters and observers run on real goroutines, many fresh signals per case; the oracle only
// demands what every linearisation satisfies: exactly one Set wins, and whatever an observer sees after "set" is
// the winner's error - never another error, never "set" together with a nil error when every setter's error is
// non-nil.

type sigStress struct {
	Setters   int
	Observers int
	Rounds    int // fresh signals per case
	Spin      int // observer polls per signal
}

func runSigStress(c sigStress) (r pbt.Result) {
	errsOf := make([]error, c.Setters)
	for i := range errsOf {
		errsOf[i] = fmt.Errorf("setter-%d", i)
	}
	var mu sync.Mutex
	failure := ""
	failf := func(f string, a ...any) {
		mu.Lock()
		if failure == "" {
			failure = fmt.Sprintf(f, a...)
		}
		mu.Unlock()
	}
	for round := 0; round < c.Rounds && failure == ""; round++ {
		var s drpcsignal.Signal
		start := make(chan struct{})
		wins := make([]bool, c.Setters)
		seen := make([][]error, c.Observers)
		var wg sync.WaitGroup
		for i := 0; i < c.Setters; i++ {
			i := i
			wg.Add(1)
			go func() {
				defer wg.Done()
				<-start
				wins[i] = s.Set(errsOf[i])
			}()
		}
		for j := 0; j < c.Observers; j++ {
			j := j
			wg.Add(1)
			go func() {
				defer wg.Done()
				<-start
				// poll until the signal is seen set (the moment of the transition is what matters), giving up on
				// polling after a bounded number of rounds and falling back to Wait
				for k := 0; k < c.Spin*100000 && len(seen[j]) == 0; k++ {
					switch (j + k/c.Spin) % 3 {
					case 0:
						if err, ok := s.Get(); ok {
							if err == nil {
								failf("Get reported the signal set with a nil error although every setter's error is non-nil")
								return
							}
							seen[j] = append(seen[j], err)
						}
					case 1:
						if s.IsSet() {
							if err := s.Err(); err == nil {
								failf("IsSet was true and Err returned nil although every setter's error is non-nil")
								return
							} else {
								seen[j] = append(seen[j], err)
							}
						}
					default:
						select {
						case <-s.Signal():
							if err := s.Err(); err == nil {
								failf("the notification channel was closed before the error was visible")
								return
							} else {
								seen[j] = append(seen[j], err)
							}
						default:
						}
					}
				}
				s.Wait()
				if err := s.Err(); err == nil {
					failf("Wait returned and Err is nil")
				} else {
					seen[j] = append(seen[j], err)
				}
			}()
		}
		close(start)
		wg.Wait()
		var winner error
		n := 0
		for i, w := range wins {
			if w {
				n++
				winner = errsOf[i]
			}
		}
		if n != 1 {
			failf("%d setters were told they had won", n)
			break
		}
		for _, es := range seen {
			for _, e := range es {
				if !errors.Is(e, winner) {
					failf("an observer saw an error that is not the winner's")
				}
			}
		}
	}
	if failure != "" {
		r.Failf("%s", failure)
		r.Detailf("case=%+v", c)
		return
	}
	r.Label("concurrent_setters_and_observers")
	r.NonTrivial = c.Setters >= 2 && c.Observers >= 1
	r.Key = fmt.Sprintf("%+v", c)
	return
}

func TestC19Stress(t *testing.T) {
	gen := func(t *rapid.T) sigStress {
		return sigStress{Setters: rapid.IntRange(1, 4).Draw(t, "setters"), Observers: rapid.IntRange(1, 4).Draw(t, "observers"),
			Rounds: rapid.IntRange(50, 400).Draw(t, "rounds"), Spin: rapid.IntRange(1, 30).Draw(t, "spin")}
	}
	pbt.Check(t, pbt.Prop[sigStress]{ID: "C19", Name: "stress", Gen: gen, Run: runSigStress})
}

// The lazy channel under real concurrency: several first users (Get) and one Close start together on a fresh Chan.
// Whatever the interleaving, every Get returns a channel (never nil), all of them the same one, and it is closed once
// Close has returned.

type chanStress struct {
	Getters int
	Rounds  int
}

func runChanStress(c chanStress) (r pbt.Result) {
	for round := 0; round < c.Rounds; round++ {
		var ch drpcsignal.Chan
		start := make(chan struct{})
		got := make([]chan struct{}, c.Getters)
		var wg sync.WaitGroup
		for i := 0; i < c.Getters; i++ {
			i := i
			wg.Add(1)
			go func() {
				defer wg.Done()
				<-start
				got[i] = ch.Get()
			}()
		}
		wg.Add(1)
		go func() {
			defer wg.Done()
			<-start
			ch.Close()
		}()
		close(start)
		wg.Wait()
		for i, g := range got {
			if g == nil {
				r.Failf("Get returned a nil channel")
				r.Detailf("round %d getter %d of %+v", round, i, c)
				return
			}
			if g != got[0] {
				r.Failf("two Get calls returned different channels")
				return
			}
		}
		select {
		case <-got[0]:
		default:
			r.Failf("the channel is not closed although Close has returned")
			return
		}
	}
	r.Label("concurrent_first_users_of_a_chan")
	r.NonTrivial = c.Getters >= 2
	r.Key = fmt.Sprintf("%+v", c)
	return
}

func TestC19ChanStress(t *testing.T) {
	gen := func(t *rapid.T) chanStress {
		return chanStress{Getters: rapid.IntRange(1, 4).Draw(t, "getters"), Rounds: rapid.IntRange(100, 1000).Draw(t, "rounds")}
	}
	pbt.Check(t, pbt.Prop[chanStress]{ID: "C19", Name: "chan_stress", Gen: gen, Run: runChanStress})
}
