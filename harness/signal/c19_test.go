// Package signal holds the check of the one-shot primitives (C19): every interleaving, at
// scheduling-point granularity, of small concurrent programs over drpcsignal.Signal / Chan.
package signal

import (
	"errors"
	"fmt"
	"strings"
	"testing"

	"pgregory.net/rapid"
	"storj.io/drpc/drpcsignal"

	"verif/pbt"
	"verif/sim"
)

// an op of a goroutine's program
// Signal: "set" (Arg = error index), "get", "err", "isset", "poll" (Signal() then non-blocking check), "wait"
// Chan:   "make", "cget", "send", "recv", "full", "close"
type sop struct {
	Kind string
	Arg  int
}

type program struct {
	Chan bool
	G    [][]sop
}

func (p program) String() string {
	var sb strings.Builder
	for i, g := range p.G {
		if i > 0 {
			sb.WriteString(" || ")
		}
		for j, o := range g {
			if j > 0 {
				sb.WriteString(";")
			}
			sb.WriteString(o.Kind)
			if o.Kind == "set" {
				fmt.Fprintf(&sb, "(e%d)", o.Arg)
			}
		}
	}
	return sb.String()
}

var setErrs = []error{errors.New("e0"), errors.New("e1"), nil, errors.New("e3")}

type obs struct {
	g, i       int
	kind       string
	start, end int64
	ok         bool  // set: won; get/isset: saw set; poll: channel closed
	err        error // get/err result (poll: Get result read right after seeing the channel closed)
	isSet      bool  // poll: IsSet read right after seeing the channel closed
	ch         any   // channel identity
	panicked   string
}

type world struct {
	prog        program
	sig         drpcsignal.Signal
	ch          drpcsignal.Chan
	pts         *sim.Points
	clock       int64
	obs         []*obs
	done        []bool
	gids        []int64
	closeFamily bool
}

// runSchedule executes the program under the schedule (a sequence of indices into the sorted list
// of parked goroutines) and returns the number of enabled choices seen at each step.
func runSchedule(p program, schedule []int, extend func(step, n int) int) (w *world, widths []int, trace []string, stuck bool) {
	w = &world{prog: p, done: make([]bool, len(p.G)), gids: make([]int64, len(p.G))}
	for _, g := range p.G {
		for _, o := range g {
			if o.Kind == "close" {
				w.closeFamily = true
			}
		}
	}
	w.pts = sim.NewPoints([]string{"*"})
	w.pts.Install()
	defer w.pts.Uninstall()
	tick := func() int64 { w.clock++; return w.clock }
	for gi := range p.G {
		gi := gi
		go func() {
			w.gids[gi] = sim.GoID()
			defer func() { w.done[gi] = true }()
			for oi, op := range p.G[gi] {
				w.pts.Hit("harness.opBoundary")
				o := &obs{g: gi, i: oi, kind: op.Kind, start: tick()}
				w.obs = append(w.obs, o)
				func() {
					defer func() {
						if v := recover(); v != nil {
							o.panicked = fmt.Sprint(v)
						}
					}()
					switch op.Kind {
					case "set":
						o.ok = w.sig.Set(setErrs[op.Arg%len(setErrs)])
					case "get":
						o.err, o.ok = w.sig.Get()
					case "err":
						o.err = w.sig.Err()
					case "isset":
						o.ok = w.sig.IsSet()
					case "poll":
						c := w.sig.Signal()
						o.ch = c
						select {
						case <-c:
							o.ok = true
							o.isSet = w.sig.IsSet()
							o.err, _ = w.sig.Get()
						default:
						}
					case "wait":
						w.sig.Wait()
						o.ok = true
						o.isSet = w.sig.IsSet()
						o.err, _ = w.sig.Get()
					case "make":
						w.ch.Make(1)
					case "cget":
						c := w.ch.Get()
						o.ch = c
						if w.closeFamily {
							// only in the {Close, Get} family may an observer test the channel by receiving from it
							select {
							case <-c:
								o.ok = true
							default:
							}
						}
					case "send":
						w.ch.Send()
					case "recv":
						w.ch.Recv()
					case "full":
						o.ok = w.ch.Full()
					case "close":
						w.ch.Close()
					}
				}()
				o.end = tick()
			}
		}()
	}
	for step := 0; step < 2000; step++ {
		sim.WaitQuiescent()
		parked := w.pts.Parked()
		// order the parked arrivals by goroutine index for a stable choice alphabet
		type cand struct {
			g int
			a *sim.Arrival
		}
		var cs []cand
		for gi := range p.G {
			for _, a := range parked {
				if a.GID == w.gids[gi] {
					cs = append(cs, cand{gi, a})
				}
			}
		}
		if len(cs) == 0 {
			all := true
			for _, d := range w.done {
				all = all && d
			}
			return w, widths, trace, !all
		}
		var k int
		if step < len(schedule) {
			k = schedule[step] % len(cs)
		} else {
			k = extend(step, len(cs)) % len(cs)
		}
		widths = append(widths, len(cs))
		trace = append(trace, fmt.Sprintf("g%d@%s", cs[k].g, strings.TrimPrefix(cs[k].a.Name, "signal.")))
		w.pts.Release(cs[k].a)
	}
	return w, widths, trace, true
}

// judge applies the oracle to a finished execution.
func judge(w *world, stuck bool) string {
	for _, o := range w.obs {
		if o.panicked != "" {
			return "an operation panicked"
		}
	}
	if stuck {
		return "an operation never returned (lost wake-up)"
	}
	if w.prog.Chan {
		var ch any
		closedAt := int64(-1)
		for _, o := range w.obs {
			if o.kind == "close" {
				closedAt = o.end
			}
		}
		for _, o := range w.obs {
			if o.kind != "cget" {
				continue
			}
			if ch == nil {
				ch = o.ch
			} else if ch != o.ch {
				return "two Get calls returned different channels"
			}
			if closedAt >= 0 && o.start > closedAt && !o.ok {
				return "channel obtained after Close returned is not closed"
			}
		}
		if closedAt >= 0 && ch != nil {
			select {
			case <-ch.(chan struct{}):
			default:
				return "Close returned but the channel handed out by Get never closes"
			}
		}
		return ""
	}
	winners := 0
	var winner error
	firstSetEnd, winnerEnd := int64(-1), int64(-1)
	for _, o := range w.obs {
		if o.kind == "set" {
			if o.ok {
				winners++
				winner = setErrs[w.prog.G[o.g][o.i].Arg%len(setErrs)]
				winnerEnd = o.end
			}
			if firstSetEnd < 0 || o.end < firstSetEnd {
				firstSetEnd = o.end
			}
		}
	}
	if firstSetEnd >= 0 && winners != 1 {
		return "not exactly one Set won"
	}
	// "every observer thereafter sees the winner's error": thereafter starts with the first call that returned having
	// seen the signal set - a completed Set, but also a Get/IsSet/poll/Wait that reported it set or an Err that
	// returned an error. Whatever starts after that call returned must see the signal set as well (an observer that
	// is told "set" by Err and "not set" by the IsSet it calls next has seen the signal go backwards).
	for _, o := range w.obs {
		saw := false
		switch o.kind {
		case "get", "isset", "poll", "wait":
			saw = o.ok
		case "err":
			saw = o.err != nil
		}
		if saw && o.panicked == "" && (firstSetEnd < 0 || o.end < firstSetEnd) {
			firstSetEnd = o.end
		}
	}
	var ch any
	for _, o := range w.obs {
		after := firstSetEnd >= 0 && o.start > firstSetEnd
		switch o.kind {
		case "get":
			if after && !o.ok {
				return "Get after a completed Set did not see the signal set"
			}
			if o.ok && o.err != winner {
				return "Get returned an error other than the winner's"
			}
		case "err":
			if after && o.err != winner {
				return "Err after a completed Set did not return the winner's error"
			}
			if o.err != nil && o.err != winner {
				return "Err returned an error other than the winner's"
			}
		case "isset":
			if after && !o.ok {
				return "IsSet after a completed Set returned false"
			}
		case "poll", "wait":
			if o.kind == "poll" {
				if ch == nil {
					ch = o.ch
				} else if ch != o.ch {
					return "two Signal() calls returned different channels"
				}
				// (a losing Set may return as soon as the value is visible, before the winner has closed the channel)
				if winnerEnd >= 0 && o.start > winnerEnd && !o.ok {
					return "notification channel not closed after the winning Set returned"
				}
			}
			if o.ok {
				if !o.isSet {
					return "channel closed but IsSet false (closed before the value was visible)"
				}
				if o.err != winner {
					return "channel closed but the error is not the winner's"
				}
			}
		}
	}
	return ""
}

// explore enumerates ALL schedules of the program by stateless depth-first re-execution.
func explore(p program, limit int) (n int, fail string, failTrace []string, complete bool) {
	var prefix []int
	var widthsAt []int
	for {
		w, widths, trace, stuck := runSchedule(p, prefix, func(step, n int) int { return 0 })
		n++
		if msg := judge(w, stuck); msg != "" {
			return n, msg, trace, false
		}
		// next schedule: the executed choices are prefix + zeros; increment the last position that can grow
		full := make([]int, len(widths))
		copy(full, prefix)
		widthsAt = widths
		i := len(full) - 1
		for ; i >= 0; i-- {
			if full[i]+1 < widthsAt[i] {
				full[i]++
				break
			}
		}
		if i < 0 {
			return n, "", nil, true
		}
		prefix = full[:i+1]
		if n >= limit {
			return n, "", nil, false
		}
	}
}

// the fixed family of small programs that is enumerated exhaustively
func fixedPrograms(thorough bool) []program {
	s := func(k string, a ...int) sop {
		o := sop{Kind: k}
		if len(a) > 0 {
			o.Arg = a[0]
		}
		return o
	}
	ps := []program{
		{G: [][]sop{{s("set", 0)}, {s("poll"), s("poll")}}},
		{G: [][]sop{{s("set", 0)}, {s("get"), s("isset"), s("err")}}},
		{G: [][]sop{{s("set", 0)}, {s("set", 1)}}},
		{G: [][]sop{{s("set", 0)}, {s("wait")}}},
		{G: [][]sop{{s("poll"), s("set", 1)}, {s("poll"), s("get")}}},
		{G: [][]sop{{s("set", 2)}, {s("poll"), s("get")}}},
		{Chan: true, G: [][]sop{{s("close")}, {s("cget"), s("cget")}}},
		{Chan: true, G: [][]sop{{s("cget"), s("close")}, {s("cget")}}},
		{Chan: true, G: [][]sop{{s("make"), s("send")}, {s("recv"), s("cget")}}},
		{Chan: true, G: [][]sop{{s("send")}, {s("recv")}}},
		// Full is only sound next to operations that do not take tokens (it sends and takes its own token back)
		{Chan: true, G: [][]sop{{s("make"), s("full")}, {s("cget"), s("full")}}},
	}
	if thorough {
		ps = append(ps,
			program{G: [][]sop{{s("set", 0)}, {s("set", 1)}, {s("poll"), s("poll")}}},
			program{G: [][]sop{{s("set", 0)}, {s("wait")}, {s("poll"), s("get")}}},
			program{G: [][]sop{{s("set", 0), s("get")}, {s("set", 1), s("get")}}},
			program{Chan: true, G: [][]sop{{s("close")}, {s("cget")}, {s("cget")}}},
		)
	}
	return ps
}

type exhaustiveSample struct {
	Program   string
	Schedules int
	Complete  bool
}

func TestC19Exhaustive(t *testing.T) {
	if pbt.Replaying() {
		t.Skip()
	}
	p := pbt.Prop[exhaustiveSample]{ID: "C19", Name: "exhaustive"}
	for _, prog := range fixedPrograms(pbt.Thorough()) {
		limit := 20000
		if pbt.Thorough() {
			limit = 400000
		}
		n, fail, trace, complete := explore(prog, limit)
		r := pbt.Result{NonTrivial: true, Key: prog.String(), Labels: []string{"program"}}
		if !complete && fail == "" {
			r.Labels = append(r.Labels, "schedule_limit_reached")
		}
		smp := exhaustiveSample{prog.String(), n, complete}
		if fail != "" {
			r.Fail = fail
			r.Detail = fmt.Sprintf("program %s\nschedule %v", prog, trace)
		}
		pbt.Record(p, smp, r)
		pbt.AddEvaluations(p, n-1)
		if fail != "" {
			path := pbt.SaveFailure(pbt.Prop[progCase]{ID: "C19", Name: "random"}, progCase{Prog: prog, Schedule: nil, Trace: trace}, r)
			t.Fatalf("%s: %s (schedule %v) [replay=%s]", prog, fail, trace, path)
		}
		t.Logf("%s: %d schedules, complete=%v", prog, n, complete)
	}
}

// ---- rapid-drawn programs and schedules beyond the fixed family ---------------------------

type progCase struct {
	Prog     program
	Schedule []int
	Trace    []string `json:",omitempty"`
}

func genProg(t *rapid.T) progCase {
	var p program
	p.Chan = rapid.IntRange(0, 2).Draw(t, "chan") == 0
	ng := rapid.IntRange(2, 3).Draw(t, "goroutines")
	if p.Chan {
		if rapid.Bool().Draw(t, "closefamily") {
			// {Close once, Get}
			closer := rapid.IntRange(0, ng-1).Draw(t, "closer")
			for g := 0; g < ng; g++ {
				var ops []sop
				n := rapid.IntRange(1, 2).Draw(t, "nops")
				for i := 0; i < n; i++ {
					ops = append(ops, sop{Kind: "cget"})
				}
				if g == closer {
					pos := rapid.IntRange(0, len(ops)).Draw(t, "closepos")
					ops = append(ops[:pos:pos], append([]sop{{Kind: "close"}}, ops[pos:]...)...)
				}
				p.G = append(p.G, ops)
			}
		} else {
			// balanced sends and receives on separate goroutines, plus Make/Get/Full
			pairs := rapid.IntRange(1, 2).Draw(t, "pairs")
			sender, receiver := []sop{}, []sop{}
			if rapid.Bool().Draw(t, "make") {
				sender = append(sender, sop{Kind: "make"})
			}
			for i := 0; i < pairs; i++ {
				sender = append(sender, sop{Kind: "send"})
				receiver = append(receiver, sop{Kind: "recv"})
			}
			p.G = [][]sop{sender, receiver}
			if ng == 3 {
				p.G = append(p.G, []sop{{Kind: rapid.SampledFrom([]string{"cget", "make"}).Draw(t, "third")}})
			}
		}
	} else {
		haveSet := false
		for g := 0; g < ng; g++ {
			n := rapid.IntRange(1, 3).Draw(t, "nops")
			var ops []sop
			for i := 0; i < n; i++ {
				k := rapid.SampledFrom([]string{"set", "get", "err", "isset", "poll", "poll", "wait"}).Draw(t, "op")
				if k == "set" {
					haveSet = true
				}
				ops = append(ops, sop{Kind: k, Arg: rapid.IntRange(0, 3).Draw(t, "arg")})
			}
			p.G = append(p.G, ops)
		}
		if !haveSet {
			p.G[0] = append(p.G[0], sop{Kind: "set", Arg: 1})
		}
		// a Wait needs a Set on ANOTHER goroutine that does not itself wait first: put a plain setter last
		for _, g := range p.G {
			for _, o := range g {
				if o.Kind == "wait" {
					p.G = append(p.G[:len(p.G):len(p.G)], []sop{{Kind: "set", Arg: 3}})
					goto done
				}
			}
		}
	done:
	}
	return progCase{Prog: p, Schedule: rapid.SliceOfN(rapid.IntRange(0, 3), 0, 60).Draw(t, "schedule")}
}

func runProg(c progCase) (r pbt.Result) {
	w, _, trace, stuck := runSchedule(c.Prog, c.Schedule, func(step, n int) int { return 0 })
	if msg := judge(w, stuck); msg != "" {
		r.Fail = msg
		r.Detail = fmt.Sprintf("program %s\nschedule %v", c.Prog, trace)
		return
	}
	if c.Prog.Chan {
		r.Label("chan")
	} else {
		r.Label("signal")
	}
	r.Label(fmt.Sprintf("goroutines_%d", len(c.Prog.G)))
	r.NonTrivial = len(trace) >= 4
	r.Key = c.Prog.String() + "|" + strings.Join(trace, ",")
	r.Sample = map[string]any{"program": c.Prog.String(), "schedule": trace}
	return
}

func TestC19Random(t *testing.T) {
	pbt.Check(t, pbt.Prop[progCase]{ID: "C19", Name: "random", Gen: genProg, Run: runProg})
}
