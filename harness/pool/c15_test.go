// Package pool holds the model-based check of the connection pool (C15).
package pool

import (
	"context"
	"errors"
	"fmt"
	"sync"
	"testing"
	"time"

	"pgregory.net/rapid"
	"storj.io/drpc"
	"storj.io/drpc/drpcpool"

	"verif/pbt"
	"verif/sim"
)

var closedCh = func() chan struct{} { c := make(chan struct{}); close(c); return c }()

// fconn is a fake connection whose state the harness controls.
type fconn struct {
	id        int
	failClose bool // Close does its work and reports an error, as a connection whose peer is gone does
	mu        sync.Mutex
	closed    chan struct{}
	closes    int
	blocked   bool
	blockCh   chan struct{}
}

func newConn(id int) *fconn {
	return &fconn{id: id, closed: make(chan struct{}), blockCh: make(chan struct{})}
}

func (f *fconn) Close() error {
	f.mu.Lock()
	defer f.mu.Unlock()
	f.closes++
	if f.closes == 1 {
		close(f.closed)
	}
	if f.failClose {
		return errClose
	}
	return nil
}

var errClose = errors.New("fconn: close reported an error")

func (f *fconn) Closes() int             { f.mu.Lock(); defer f.mu.Unlock(); return f.closes }
func (f *fconn) Closed() <-chan struct{} { return f.closed }
func (f *fconn) Unblocked() <-chan struct{} {
	f.mu.Lock()
	defer f.mu.Unlock()
	if f.blocked {
		return f.blockCh
	}
	return closedCh
}
func (f *fconn) Invoke(ctx context.Context, rpc string, enc drpc.Encoding, in, out drpc.Message) error {
	return nil
}
func (f *fconn) NewStream(ctx context.Context, rpc string, enc drpc.Encoding) (drpc.Stream, error) {
	return nil, nil
}

type poolOp struct {
	Kind  string // put reput take block extclose release closeall
	Key   int
	Which int
}

type c15Case struct {
	Capacity    int
	KeyCapacity int
	Expiry      int // 0 none, 1 one hour (never fires), 2 immediate (fires at once, parked at its first point)
	Ops         []poolOp
	// CloseErrEvery: every k-th connection's Close reports an error (0 = none does)
	CloseErrEvery int
}

var keys = []string{"a", "b", "c"}

func runC15(c c15Case) (r pbt.Result) {
	opts := drpcpool.Options{Capacity: c.Capacity, KeyCapacity: c.KeyCapacity}
	var pts *sim.Points
	switch c.Expiry {
	case 1:
		opts.Expiration = time.Hour
	case 2:
		opts.Expiration = time.Nanosecond
		pts = sim.NewPoints([]string{"pool.expire.enter", "pool.expire.afterClose", "pool.removeEntry.beforeLock"})
		pts.Install()
		defer pts.Uninstall()
	}
	p := drpcpool.New[string, *fconn](opts)
	var all []*fconn
	state := map[int]string{} // "out" (with the caller), "pool" (put, not handed out since), "closed"
	keyOf := map[int]string{}
	fired := map[int]bool{} // expiry callback of the current put has started
	putGen := map[int]int{} // how many times the conn was put
	takes := map[int]int{}
	fail := func(i int, f string, a ...any) {
		r.Fail = fmt.Sprintf(f, a...)
		r.Detail = fmt.Sprintf("step %d of %+v", i, c)
	}
	evictions, expiryTouched := 0, false
	closedAll := 0
	expectArrivals := 0
	waitArrival := func() bool {
		// a 1ns timer fires on its own goroutine: wait (bounded) until the callback has parked
		for i := 0; i < 40000; i++ {
			if pts.HitCount("pool.expire.enter") >= expectArrivals {
				return true
			}
			time.Sleep(50 * time.Microsecond)
		}
		return false
	}
	parkedEnter := 0
	syncClosed := func() {
		for id, s := range state {
			if s == "pool" && all[id].Closes() > 0 {
				state[id] = "closed"
				evictions++
			}
		}
	}
	check := func(i int) bool {
		walked, counted, perW, perC := p.VerifCounts()
		if c.Capacity > 0 && walked > c.Capacity {
			fail(i, "pool caches more connections than its capacity")
			r.Detailf("walked=%d capacity=%d", walked, c.Capacity)
			return false
		}
		for k, n := range perW {
			if c.KeyCapacity > 0 && n > c.KeyCapacity {
				fail(i, "pool caches more connections for one key than its key capacity")
				r.Detailf("key=%s walked=%d keycap=%d", k, n, c.KeyCapacity)
				return false
			}
		}
		if (c.Capacity < 0 || c.KeyCapacity < 0) && walked > 0 {
			fail(i, "pool with negative capacity cached a connection")
			return false
		}
		if walked != counted {
			r.Label("diagnostic_count_mismatch")
		}
		for k := range perW {
			if perW[k] != perC[k] {
				r.Label("diagnostic_count_mismatch")
			}
		}
		// what the pool holds must be connections that were put and not handed out since
		for _, v := range p.VerifValues() {
			if state[v.id] == "out" {
				fail(i, "pool still caches a connection that it has handed out")
				return false
			}
		}
		return true
	}
	for i, op := range c.Ops {
		key := keys[op.Key%len(keys)]
		switch op.Kind {
		case "put", "reput":
			var cn *fconn
			if op.Kind == "reput" {
				var outs []int
				for id := range all {
					if state[id] == "out" {
						outs = append(outs, id)
					}
				}
				if len(outs) == 0 {
					continue
				}
				cn = all[outs[op.Which%len(outs)]]
				key = keyOf[cn.id]
			} else {
				cn = newConn(len(all))
				cn.failClose = c.CloseErrEvery > 0 && len(all)%c.CloseErrEvery == 0
				all = append(all, cn)
				keyOf[cn.id] = key
			}
			if pbt.Excluded("F1") && c.Capacity > 0 {
				// (F1 is fixed; kept as a switch for the regression scenario)
			}
			wasClosed := cn.Closes() > 0
			p.Put(key, cn)
			putGen[cn.id]++
			fired[cn.id] = false
			switch {
			case cn.Closes() > 0:
				state[cn.id] = "closed"
			default:
				state[cn.id] = "pool"
				if c.Expiry == 2 && !wasClosed && c.Capacity >= 0 && c.KeyCapacity >= 0 {
					expectArrivals++
					if !waitArrival() {
						r.Label("expiry_timer_did_not_fire_in_time")
						return
					}
					fired[cn.id] = true
					parkedEnter++
				}
			}
		case "take":
			got, ok := p.Take(key)
			if ok {
				switch {
				case state[got.id] != "pool":
					fail(i, "Take handed out a connection that is not cached (state %s)", state[got.id])
					return
				case keyOf[got.id] != key:
					fail(i, "Take handed out a connection of another key")
					return
				case got.Closes() > 0:
					fail(i, "Take handed out a closed connection")
					return
				case got.blocked:
					fail(i, "Take handed out a connection still blocked by a cancelled call")
					return
				case fired[got.id]:
					fail(i, "Take handed out a connection whose expiry had already fired")
					return
				}
				state[got.id] = "out"
				takes[got.id]++
			}
		case "block":
			if len(all) > 0 {
				cn := all[op.Which%len(all)]
				cn.mu.Lock()
				cn.blocked = !cn.blocked
				cn.mu.Unlock()
			}
		case "extclose":
			if len(all) > 0 {
				cn := all[op.Which%len(all)]
				if state[cn.id] == "pool" || state[cn.id] == "out" {
					_ = cn.Close()
					state[cn.id] = "closed"
				}
			}
		case "release":
			if pts != nil {
				if parked := pts.Parked(); len(parked) > 0 {
					a := parked[op.Which%len(parked)]
					before := len(parked)
					pts.Release(a)
					expiryTouched = true
					// it either parks at its next point or completes
					for j := 0; j < 20000; j++ {
						sim.WaitQuiescent()
						if n := len(pts.Parked()); n == before || n == before-1 {
							break
						}
					}
				}
			}
		case "closeall":
			_ = p.Close()
			if walked, _, _, _ := p.VerifCounts(); walked != 0 {
				// Close closes every cached connection; none of them may stay cached (whatever their Close reported)
				fail(i, "the pool still caches connections after Pool.Close")
				r.Detailf("walked=%d", walked)
				return
			}
			closedAll++
		}
		syncClosed()
		if !check(i) {
			return
		}
	}
	// the end: close the pool, let every expiry finish
	_ = p.Close()
	if pts != nil {
		for j := 0; j < 1000; j++ {
			parked := pts.Parked()
			if len(parked) == 0 {
				break
			}
			pts.Release(parked[0])
			sim.WaitQuiescent()
		}
	}
	syncClosed()
	for id, cn := range all {
		switch state[id] {
		case "pool":
			if cn.Closes() == 0 {
				fail(len(c.Ops), "a connection put into the pool was neither handed out nor closed")
				r.Detailf("conn %d", id)
				return
			}
		case "out":
			if cn.Closes() > 0 {
				fail(len(c.Ops), "a connection was handed out and also closed by the pool")
				r.Detailf("conn %d", id)
				return
			}
		}
		if takes[id] > putGen[id] {
			fail(len(c.Ops), "a connection was handed out more often than it was put")
			return
		}
	}
	if evictions > 0 {
		r.Label("eviction")
	}
	if closedAll > 0 {
		r.Label("pool_closed_mid_history")
	}
	if c.CloseErrEvery > 0 {
		r.Label("connections_whose_close_reports_an_error")
	}
	if expiryTouched {
		r.Label("expiry_released_mid_history")
	}
	if parkedEnter > 0 {
		r.Label("expiry_fired_and_parked")
	}
	r.Label(fmt.Sprintf("expiry_%d", c.Expiry))
	r.NonTrivial = evictions > 0 || expiryTouched
	r.Key = fmt.Sprintf("%+v", c)
	return
}

var genPoolOp = rapid.Custom(func(t *rapid.T) poolOp {
	return poolOp{Kind: rapid.SampledFrom([]string{"put", "put", "put", "reput", "take", "take", "take", "block", "extclose", "release", "release", "closeall"}).Draw(t, "kind"),
		Key: rapid.IntRange(0, 2).Draw(t, "key"), Which: rapid.IntRange(0, 7).Draw(t, "which")}
})

func genC15(t *rapid.T) c15Case {
	return c15Case{
		Capacity:      rapid.SampledFrom([]int{-1, 0, 1, 2, 3}).Draw(t, "cap"),
		KeyCapacity:   rapid.SampledFrom([]int{-1, 0, 1, 2}).Draw(t, "keycap"),
		Expiry:        rapid.SampledFrom([]int{0, 1, 2, 2}).Draw(t, "expiry"),
		Ops:           rapid.SliceOfN(genPoolOp, 1, 30).Draw(t, "ops"),
		CloseErrEvery: rapid.SampledFrom([]int{0, 0, 1, 2, 3}).Draw(t, "closeerr"),
	}
}

func TestC15Pool(t *testing.T) {
	pbt.Check(t, pbt.Prop[c15Case]{ID: "C15", Name: "pool", Gen: genC15, Run: runC15})
}
