package pool

import (
	"context"
	"errors"
	"fmt"
	"sync"
	"testing"

	"pgregory.net/rapid"
	"storj.io/drpc"
	"storj.io/drpc/drpcpool"

	"verif/pbt"
	"verif/sim"
)

// C15 through the public wrapper: connections obtained with Pool.Get are dialed or taken per call;
// a connection must never serve two callers at once and every dialed connection ends up cached
// (within the bounds) or closed.

type gateConn struct {
	fconn
	w *pcWorld
}

// Closed is what Pool.Put asks first; with the gate armed the call waits there (the connection is "on its way back"
// for a while).
func (g *gateConn) Closed() <-chan struct{} {
	g.w.mu.Lock()
	gate := g.w.putGate
	g.w.mu.Unlock()
	if gate != nil {
		<-gate
	}
	return g.fconn.Closed()
}

type pcWorld struct {
	mu      sync.Mutex
	conns   []*gateConn
	inUse   map[int]int
	maxUse  int
	gate    chan struct{} // calls park here until released
	parked  int
	streams []*fakeStream
	// failNext: the next NewStream on a connection fails (the connection itself stays intact)
	failNext bool
	// putGate, when set, holds every Pool.Put (inside its first question to the connection) until it is closed
	putGate chan struct{}
	wrapped []drpc.Stream // what Pool.Get(...).NewStream returned, in order
}

func (g *gateConn) Invoke(ctx context.Context, rpc string, enc drpc.Encoding, in, out drpc.Message) error {
	g.w.enter(g.id)
	defer g.w.leave(g.id)
	g.w.mu.Lock()
	g.w.parked++
	g.w.mu.Unlock()
	<-g.w.gate
	if g.Closes() > 0 {
		return errors.New("used after close")
	}
	return nil
}

type fakeStream struct {
	ctx    context.Context
	cancel func()
}

func (s *fakeStream) Context() context.Context                          { return s.ctx }
func (s *fakeStream) MsgSend(msg drpc.Message, enc drpc.Encoding) error { return nil }
func (s *fakeStream) MsgRecv(msg drpc.Message, enc drpc.Encoding) error { return nil }
func (s *fakeStream) CloseSend() error                                  { return nil }
func (s *fakeStream) Close() error                                      { s.cancel(); return nil }

func (g *gateConn) NewStream(ctx context.Context, rpc string, enc drpc.Encoding) (drpc.Stream, error) {
	g.w.mu.Lock()
	failing := g.w.failNext
	g.w.failNext = false
	g.w.mu.Unlock()
	if failing {
		return nil, errors.New("gateConn: NewStream failed")
	}
	g.w.enter(g.id)
	sctx, cancel := context.WithCancel(context.Background())
	st := &fakeStream{ctx: sctx, cancel: func() { g.w.leave(g.id); cancel() }}
	g.w.mu.Lock()
	g.w.streams = append(g.w.streams, st)
	g.w.mu.Unlock()
	return st, nil
}

func (w *pcWorld) enter(id int) {
	w.mu.Lock()
	w.inUse[id]++
	if w.inUse[id] > w.maxUse {
		w.maxUse = w.inUse[id]
	}
	w.mu.Unlock()
}

func (w *pcWorld) leave(id int) {
	w.mu.Lock()
	w.inUse[id]--
	w.mu.Unlock()
}

type pcOp struct {
	Kind string // invoke stream endstream release
	Key  int
	N    int
}

type pcCase struct {
	Capacity, KeyCapacity int
	Ops                   []pcOp
}

func runPoolConn(c pcCase) (r pbt.Result) {
	w := &pcWorld{inUse: map[int]int{}, gate: make(chan struct{})}
	p := drpcpool.New[string, *gateConn](drpcpool.Options{Capacity: c.Capacity, KeyCapacity: c.KeyCapacity})
	dial := func(ctx context.Context, key string) (*gateConn, error) {
		w.mu.Lock()
		defer w.mu.Unlock()
		g := &gateConn{fconn: *newConn(len(w.conns)), w: w}
		w.conns = append(w.conns, g)
		return g, nil
	}
	fail := func(f string, a ...any) {
		r.Fail = fmt.Sprintf(f, a...)
		r.Detail = fmt.Sprintf("%+v", c)
	}
	var wg sync.WaitGroup
	var mu sync.Mutex
	var errsSeen []error
	overlap := false
	failedStreams, slowPuts := 0, 0
	for _, op := range c.Ops {
		key := keys[op.Key%len(keys)]
		switch op.Kind {
		case "invoke":
			pc := p.Get(context.Background(), key, dial)
			wg.Add(1)
			go func() {
				defer wg.Done()
				if err := pc.Invoke(context.Background(), "rpc", nil, nil, nil); err != nil {
					mu.Lock()
					errsSeen = append(errsSeen, err)
					mu.Unlock()
				}
			}()
		case "stream":
			pc := p.Get(context.Background(), key, dial)
			st, err := pc.NewStream(context.Background(), "rpc", nil)
			if err != nil || st == nil {
				fail("NewStream through the pool failed")
				return
			}
			w.mu.Lock()
			w.wrapped = append(w.wrapped, st)
			w.mu.Unlock()
		case "failstream":
			// a stream that cannot be opened: the connection it was tried on goes back to the pool
			w.mu.Lock()
			w.failNext = true
			w.mu.Unlock()
			pc := p.Get(context.Background(), key, dial)
			if st, err := pc.NewStream(context.Background(), "rpc", nil); err == nil || st != nil {
				fail("harness: failing NewStream succeeded")
				return
			}
			failedStreams++
		case "endstream_slowput":
			// the stream ends while returning its connection to the pool takes a while: the wrapped stream's Done
			// channel must stay open until the connection is back ("callers can be sure that a connection will be
			// reused if possible")
			w.mu.Lock()
			var st *fakeStream
			var wr drpc.Stream
			if len(w.streams) > 0 && len(w.streams) == len(w.wrapped) {
				i := op.N % len(w.streams)
				st, wr = w.streams[i], w.wrapped[i]
			}
			gate := make(chan struct{})
			if st != nil {
				w.putGate = gate
			}
			w.mu.Unlock()
			if st != nil {
				already := false
				select {
				case <-wr.Context().Done():
					already = true
				default:
				}
				_ = st.Close()
				sim.WaitQuiescent()
				if !already {
					select {
					case <-wr.Context().Done():
						w.mu.Lock()
						w.putGate = nil
						w.mu.Unlock()
						close(gate)
						fail("the pooled stream's Done channel closed before its connection was back in the pool")
						return
					default:
					}
				}
				w.mu.Lock()
				w.putGate = nil
				w.mu.Unlock()
				close(gate)
				slowPuts++
			}
		case "endstream":
			w.mu.Lock()
			var st *fakeStream
			if len(w.streams) > 0 {
				st = w.streams[op.N%len(w.streams)]
			}
			w.mu.Unlock()
			if st != nil {
				_ = st.Close()
			}
		case "release":
			// let up to N parked invokes finish
			for i := 0; i <= op.N%3; i++ {
				sim.WaitQuiescent()
				w.mu.Lock()
				n := w.parked
				if n > 0 {
					w.parked--
				}
				w.mu.Unlock()
				if n > 0 {
					w.gate <- struct{}{}
				}
			}
		}
		sim.WaitQuiescent()
		w.mu.Lock()
		if w.parked >= 2 {
			overlap = true
		}
		mx := w.maxUse
		w.mu.Unlock()
		if mx > 1 {
			fail("a pooled connection was handed to two callers at once")
			return
		}
		walked, _, perKey, _ := p.VerifCounts()
		if c.Capacity > 0 && walked > c.Capacity {
			fail("pool caches more connections than its capacity")
			return
		}
		for _, n := range perKey {
			if c.KeyCapacity > 0 && n > c.KeyCapacity {
				fail("pool caches more connections for one key than its key capacity")
				return
			}
		}
	}
	// finish everything
	for {
		sim.WaitQuiescent()
		w.mu.Lock()
		n := w.parked
		if n > 0 {
			w.parked--
		}
		w.mu.Unlock()
		if n == 0 {
			break
		}
		w.gate <- struct{}{}
	}
	wg.Wait()
	w.mu.Lock()
	sts := append([]*fakeStream(nil), w.streams...)
	w.mu.Unlock()
	for _, st := range sts {
		_ = st.Close()
	}
	sim.WaitQuiescent()
	if len(errsSeen) > 0 {
		fail("a call through the pool used a connection the pool had closed")
		return
	}
	cached := map[int]bool{}
	for _, v := range p.VerifValues() {
		cached[v.id] = true
	}
	w.mu.Lock()
	for _, g := range w.conns {
		if !cached[g.id] && g.Closes() == 0 {
			w.mu.Unlock()
			fail("a dialed connection is neither cached nor closed after its calls ended")
			return
		}
		if cached[g.id] && g.Closes() > 0 {
			w.mu.Unlock()
			fail("the pool caches a connection it has closed")
			return
		}
	}
	n := len(w.conns)
	w.mu.Unlock()
	_ = p.Close()
	if overlap {
		r.Label("overlapping_calls")
	}
	if failedStreams > 0 {
		r.Label("stream_could_not_be_opened")
	}
	if slowPuts > 0 {
		r.Label("stream_ended_with_a_slow_return_to_the_pool")
	}
	r.Label(fmt.Sprintf("dialed_%d", minI(n, 3)))
	r.NonTrivial = overlap && n >= 2
	r.Key = fmt.Sprintf("%+v", c)
	return
}

func minI(a, b int) int {
	if a < b {
		return a
	}
	return b
}

func TestC15PoolConn(t *testing.T) {
	gen := func(t *rapid.T) pcCase {
		return pcCase{Capacity: rapid.SampledFrom([]int{0, 1, 2, 3}).Draw(t, "cap"), KeyCapacity: rapid.SampledFrom([]int{0, 1, 2}).Draw(t, "keycap"),
			Ops: rapid.SliceOfN(rapid.Custom(func(t *rapid.T) pcOp {
				return pcOp{Kind: rapid.SampledFrom([]string{"invoke", "invoke", "invoke", "stream", "endstream", "release", "release", "failstream", "endstream_slowput"}).Draw(t, "kind"), Key: rapid.IntRange(0, 1).Draw(t, "key"), N: rapid.IntRange(0, 5).Draw(t, "n")}
			}), 1, 16).Draw(t, "ops")}
	}
	pbt.Check(t, pbt.Prop[pcCase]{ID: "C15", Name: "poolconn", Gen: gen, Run: runPoolConn})
}
