package pool

import (
	"context"
	"fmt"
	"net"
	"sync"
	"testing"

	"pgregory.net/rapid"
	"storj.io/drpc"
	"storj.io/drpc/drpcconn"
	"storj.io/drpc/drpcserver"

	"verif/pbt"
)

// C13 under real concurrency: one server with CollectStats serves several connections at once, and the peers choose
// the rpc names - some shared, some never seen before (the server keeps a statistics entry per name, created on first
// use by whichever connection brings it). The per-connection checks of C13 speak to one connection at a time; state
// that all connections of a server share is only reached here. Oracle: no peer input takes the process down (a
// `fatal error: concurrent map ...` or a panic kills the shard and is reported with the case as replay) - and, in
// the thorough tier, the race detector.

type statsStress struct {
	Conns int
	Calls int   // per connection
	Plan  []int // per call: 0 a name shared by all connections, 1 a name shared by two, 2.. a name never used before
}

type bytesEnc struct{}

func (bytesEnc) Marshal(m drpc.Message) ([]byte, error) { return *(m.(*[]byte)), nil }
func (bytesEnc) Unmarshal(b []byte, m drpc.Message) error {
	*(m.(*[]byte)) = append([]byte(nil), b...)
	return nil
}

type echoHandler struct{}

func (echoHandler) HandleRPC(stream drpc.Stream, rpc string) error {
	var b []byte
	if err := stream.MsgRecv(&b, bytesEnc{}); err != nil {
		return err
	}
	return stream.MsgSend(&b, bytesEnc{})
}

func runStatsStress(c statsStress) (r pbt.Result) {
	srv := drpcserver.NewWithOptions(echoHandler{}, drpcserver.Options{CollectStats: true})
	ctx, cancel := context.WithCancel(context.Background())
	defer cancel()
	var wg, served sync.WaitGroup
	var mu sync.Mutex
	names := map[string]bool{}
	failure := ""
	for ci := 0; ci < c.Conns; ci++ {
		ci := ci
		cl, sv := net.Pipe()
		served.Add(1)
		go func() { defer served.Done(); _ = srv.ServeOne(ctx, sv) }()
		conn := drpcconn.New(cl)
		wg.Add(1)
		go func() {
			defer wg.Done()
			defer conn.Close()
			for i := 0; i < c.Calls; i++ {
				ch := 0
				if len(c.Plan) > 0 {
					ch = c.Plan[(ci*c.Calls+i)%len(c.Plan)]
				}
				rpc := "/all"
				switch {
				case ch == 1:
					rpc = fmt.Sprintf("/pair%d", ci/2)
				case ch >= 2:
					rpc = fmt.Sprintf("/fresh/%d/%d", ci, i)
				}
				mu.Lock()
				names[rpc] = true
				mu.Unlock()
				in, out := []byte("ping"), []byte(nil)
				if err := conn.Invoke(ctx, rpc, bytesEnc{}, &in, &out); err != nil || string(out) != "ping" {
					mu.Lock()
					if failure == "" {
						failure = fmt.Sprintf("call %d of connection %d (%s): out=%q err=%v", i, ci, rpc, out, err)
					}
					mu.Unlock()
					return
				}
			}
		}()
	}
	wg.Wait()
	cancel()
	served.Wait()
	// C13 asks that no peer input crashes the process - it did not, or this line would not be reached (a runtime abort
	// or a panic on a library goroutine kills the shard; the driver reports it with the case). What the calls returned
	// and what the statistics hold is not C13's business: recorded as labels only.
	if failure != "" {
		r.Label("a_call_failed")
	}
	if len(srv.Stats()) != len(names) {
		r.Label("stats_entries_differ_from_names_used")
	}
	r.Label("several_connections_one_stats_table")
	r.NonTrivial = c.Conns >= 2 && len(names) > 2
	r.Key = fmt.Sprintf("%+v", c)
	return
}

func TestC13StatsStress(t *testing.T) {
	gen := func(t *rapid.T) statsStress {
		return statsStress{Conns: rapid.IntRange(2, 6).Draw(t, "conns"), Calls: rapid.IntRange(20, 200).Draw(t, "calls"),
			Plan: rapid.SliceOfN(rapid.IntRange(0, 5), 1, 16).Draw(t, "plan")}
	}
	pbt.Check(t, pbt.Prop[statsStress]{ID: "C13", Name: "stats_stress", Gen: gen, Run: runStatsStress})
}
