package pool

import (
	"fmt"
	"sync"
	"testing"
	"time"

	"pgregory.net/rapid"
	"storj.io/drpc/drpcpool"

	"verif/pbt"
)

// C15 under real concurrency (thorough tier, built with -race): the director-driven checks own the schedule at the
// granularity of calls and scheduling points, so two accesses that are only unordered *inside* one call never meet
// there. Here several goroutines use one pool at once with nothing between them but the pool's own locking; the
// deciding oracle is the race detector (a report whose two accesses are both inside storj.io/drpc is a violation of
// "a connection ... is handed to exactly one caller / never both"), plus the ownership bookkeeping at the end.

type stressCase struct {
	Capacity    int
	KeyCapacity int
	Workers     int
	Ops         int   // per worker
	Expiry      bool  // a (long) expiration, so that every Put arms a timer that Take has to stop
	Plan        []int // per-op choices, cycled: 0..5 put, 6..8 take, 9 close-all
}

func runStress(c stressCase) (r pbt.Result) {
	opts := drpcpool.Options{Capacity: c.Capacity, KeyCapacity: c.KeyCapacity}
	if c.Expiry {
		opts.Expiration = time.Hour
	}
	p := drpcpool.New[string, *fconn](opts)
	var mu sync.Mutex
	owned := map[*fconn]int{} // connections handed out by Take, per connection how often
	var all []*fconn
	failure := ""
	failf := func(s string) {
		mu.Lock()
		if failure == "" {
			failure = s
		}
		mu.Unlock()
	}
	var wg sync.WaitGroup
	for w := 0; w < c.Workers; w++ {
		w := w
		wg.Add(1)
		go func() {
			defer wg.Done()
			var mine []*fconn
			for i := 0; i < c.Ops; i++ {
				ch := 0
				if len(c.Plan) > 0 {
					ch = c.Plan[(w*c.Ops+i)%len(c.Plan)]
				}
				key := keys[(w+i+ch)%len(keys)]
				switch {
				case ch <= 5:
					var fc *fconn
					if len(mine) > 0 && ch%2 == 0 {
						fc, mine = mine[len(mine)-1], mine[:len(mine)-1] // give back one we took
					} else {
						fc = newConn(w*100000 + i)
						mu.Lock()
						all = append(all, fc)
						mu.Unlock()
					}
					p.Put(key, fc)
				case ch <= 8:
					if fc, ok := p.Take(key); ok {
						mu.Lock()
						owned[fc]++
						mu.Unlock()
						if fc.Closes() > 0 {
							failf("Take handed out a closed connection")
						}
						mine = append(mine, fc)
					}
				default:
					_ = p.Close()
				}
			}
			// connections still held by this worker are the application's: the pool must not have closed them
			for _, fc := range mine {
				if fc.Closes() > 0 {
					failf("a connection held by a caller was closed by the pool")
				}
			}
		}()
	}
	wg.Wait()
	_ = p.Close()
	if failure != "" {
		r.Failf("%s", failure)
		return
	}
	for _, fc := range all {
		if fc.Closes() > 1 {
			r.Failf("a connection was closed more than once")
			r.Detailf("conn %d: %d times", fc.id, fc.Closes())
			return
		}
	}
	if c.Workers >= 2 {
		r.Label("concurrent_workers")
	}
	if c.Expiry {
		r.Label("expiration_timers")
	}
	r.NonTrivial = c.Workers >= 2 && c.Ops >= 4
	r.Key = fmt.Sprintf("%+v", c)
	return
}

func TestC15PoolStress(t *testing.T) {
	gen := func(t *rapid.T) stressCase {
		return stressCase{
			Capacity:    rapid.SampledFrom([]int{0, 1, 2, 4}).Draw(t, "cap"),
			KeyCapacity: rapid.SampledFrom([]int{0, 1, 2}).Draw(t, "keycap"),
			Workers:     rapid.IntRange(2, 6).Draw(t, "workers"),
			Ops:         rapid.IntRange(4, 40).Draw(t, "ops"),
			Expiry:      rapid.Bool().Draw(t, "expiry"),
			Plan:        rapid.SliceOfN(rapid.IntRange(0, 9), 1, 24).Draw(t, "plan"),
		}
	}
	pbt.Check(t, pbt.Prop[stressCase]{ID: "C15", Name: "stress", Gen: gen, Run: runStress})
}
