package http

import (
	"fmt"
	"net/http/httptest"
	"testing"

	"pgregory.net/rapid"
	"storj.io/drpc/drpchttp"
	"storj.io/drpc/drpcmetadata"

	"verif/pbt"
)

type headerCase struct{ Values [][]byte }

// runHeader feeds arbitrary X-Drpc-Metadata values to drpchttp.Context: it must return a
// context or an error (never panic), and agree with the reference percent-decoder.
func runHeader(c headerCase) (r pbt.Result) {
	req := httptest.NewRequest("POST", "/x", nil)
	want := map[string]string{}
	bad := false
	escapes := 0
	for _, v := range c.Values {
		req.Header.Add("X-Drpc-Metadata", string(v))
		for _, b := range v {
			if b == '%' {
				escapes++
			}
		}
		if bad {
			continue
		}
		k, val, err := refDecodeEntry(string(v))
		if err != nil {
			bad = true
			continue
		}
		want[k] = val
	}
	ctx, err := drpchttp.Context(req)
	if bad {
		if err == nil {
			r.Failf("malformed percent-escape accepted")
			r.Detailf("%q", c.Values)
			return
		}
		r.Label("rejected")
	} else {
		if err != nil {
			r.Failf("well-formed metadata header rejected")
			r.Detailf("%q: %v", c.Values, err)
			return
		}
		got, _ := drpcmetadata.Get(ctx)
		if len(got) != len(want) {
			r.Failf("decoded metadata differs from the reference percent-decoding")
			r.Detailf("%q got %q want %q", c.Values, got, want)
			return
		}
		for k, v := range want {
			if g, ok := got[k]; !ok || g != v {
				r.Failf("decoded metadata differs from the reference percent-decoding")
				r.Detailf("%q got %q want %q", c.Values, got, want)
				return
			}
		}
		r.Label("accepted")
	}
	if escapes > 0 {
		r.Label("has_escape")
		r.NonTrivial = true
	}
	r.Key = fmt.Sprintf("%x", c.Values)
	return
}

func TestC13Header(t *testing.T) {
	alpha := []byte{'%', '%', '%', '=', '0', '4', '1', '9', 'a', 'f', 'A', 'F', 'g', 'G', 'x', ' ', '+', '/', 0xff, 0x00, 'k'}
	gen := rapid.Custom(func(t *rapid.T) headerCase {
		var c headerCase
		n := rapid.IntRange(1, 4).Draw(t, "n")
		for i := 0; i < n; i++ {
			l := rapid.IntRange(0, 64).Draw(t, "len")
			if rapid.IntRange(0, 2).Draw(t, "short") > 0 {
				l = rapid.IntRange(0, 6).Draw(t, "len")
			}
			v := make([]byte, l)
			for j := range v {
				v[j] = rapid.SampledFrom(alpha).Draw(t, "b")
			}
			c.Values = append(c.Values, v)
		}
		return c
	})
	pbt.Check(t, pbt.Prop[headerCase]{ID: "C13", Name: "http_header", Gen: pbt.G(gen), Run: runHeader})
}
