package http

import (
	"bytes"
	"encoding/base64"
	"encoding/binary"
	"fmt"
	"net/http/httptest"
	"strings"
	"testing"

	"pgregory.net/rapid"
	"storj.io/drpc"
	"storj.io/drpc/drpchttp"
	"storj.io/drpc/drpcmetadata"

	"verif/pbt"
)

type headerCase struct{ Values [][]byte }

// runHeader feeds arbitrary X-Drpc-Metadata values to drpchttp.Context: it must return a
// context or an error (never panic), and agree with the reference percent-decoder.
func runHeader(c headerCase) (r pbt.Result) {
	req := httptest.NewRequest("POST", "/x", nil)
	want := map[string]string{}
	bad := false
	escapes := 0
	for _, v := range c.Values {
		req.Header.Add("X-Drpc-Metadata", string(v))
		for _, b := range v {
			if b == '%' {
				escapes++
			}
		}
		if bad {
			continue
		}
		k, val, err := refDecodeEntry(string(v))
		if err != nil {
			bad = true
			continue
		}
		want[k] = val
	}
	ctx, err := drpchttp.Context(req)
	if bad {
		if err == nil {
			r.Failf("malformed percent-escape accepted")
			r.Detailf("%q", c.Values)
			return
		}
		r.Label("rejected")
	} else {
		if err != nil {
			r.Failf("well-formed metadata header rejected")
			r.Detailf("%q: %v", c.Values, err)
			return
		}
		got, _ := drpcmetadata.Get(ctx)
		if len(got) != len(want) {
			r.Failf("decoded metadata differs from the reference percent-decoding")
			r.Detailf("%q got %q want %q", c.Values, got, want)
			return
		}
		for k, v := range want {
			if g, ok := got[k]; !ok || g != v {
				r.Failf("decoded metadata differs from the reference percent-decoding")
				r.Detailf("%q got %q want %q", c.Values, got, want)
				return
			}
		}
		r.Label("accepted")
	}
	if escapes > 0 {
		r.Label("has_escape")
		r.NonTrivial = true
	}
	r.Key = fmt.Sprintf("%x", c.Values)
	return
}

func TestC13Header(t *testing.T) {
	alpha := []byte{'%', '%', '%', '=', '0', '4', '1', '9', 'a', 'f', 'A', 'F', 'g', 'G', 'x', ' ', '+', '/', 0xff, 0x00, 'k'}
	gen := rapid.Custom(func(t *rapid.T) headerCase {
		var c headerCase
		n := rapid.IntRange(1, 4).Draw(t, "n")
		for i := 0; i < n; i++ {
			l := rapid.IntRange(0, 64).Draw(t, "len")
			if rapid.IntRange(0, 2).Draw(t, "short") > 0 {
				l = rapid.IntRange(0, 6).Draw(t, "len")
			}
			v := make([]byte, l)
			for j := range v {
				v[j] = rapid.SampledFrom(alpha).Draw(t, "b")
			}
			c.Values = append(c.Values, v)
		}
		return c
	})
	pbt.Check(t, pbt.Prop[headerCase]{ID: "C13", Name: "http_header", Gen: pbt.G(gen), Run: runHeader})
}

// ---- arbitrary request bodies through every protocol -------------------------------------------

type bodyCase struct {
	CT   string
	Body []byte
}

func runBody(c bodyCase) (r pbt.Result) {
	recvErr, got := false, false
	h := drpchttp.New(hf(func(s drpc.Stream, rpc string) error {
		var b []byte
		if err := s.MsgRecv(&b, rawEnc{}); err != nil {
			recvErr = true
			return err
		}
		got = true
		return s.MsgSend(&b, rawEnc{})
	}))
	req := httptest.NewRequest("POST", "/svc.Service/Method", bytes.NewReader(c.Body))
	req.Header.Set("Content-Type", c.CT)
	rec := httptest.NewRecorder()
	h.ServeHTTP(rec, req)
	res := rec.Result()
	grpcweb := strings.HasPrefix(c.CT, "application/grpc-web")
	failed := res.StatusCode != 200
	if grpcweb {
		out := rec.Body.Bytes()
		if strings.Contains(c.CT, "-text") {
			out, _ = b64chunks(out)
		}
		failed = !bytes.Contains(out, []byte("grpc-status: 0\r\n"))
	}
	if recvErr && !failed {
		r.Failf("a request the gateway could not decode was answered with success")
		r.Detailf("ct=%q body=%x status=%d", c.CT, c.Body, res.StatusCode)
		return
	}
	if got {
		r.Label("decoded")
	} else {
		r.Label("rejected")
	}
	r.Label("ct_" + c.CT)
	r.NonTrivial = len(c.Body) > 0
	r.Key = fmt.Sprintf("%s|%x", c.CT, c.Body)
	return
}

func TestC13Bodies(t *testing.T) {
	gen := rapid.Custom(func(t *rapid.T) bodyCase {
		c := bodyCase{CT: rapid.SampledFrom(contentTypes).Draw(t, "ct")}
		switch rapid.IntRange(0, 4).Draw(t, "kind") {
		case 0:
			c.Body = rapid.SliceOfN(rapid.Byte(), 0, 40).Draw(t, "raw")
		case 1: // grpc frame header with hostile length
			hdr := []byte{byte(rapid.SampledFrom([]int{0, 1, 0x80, 0xff}).Draw(t, "flag")), 0, 0, 0, 0}
			binary.BigEndian.PutUint32(hdr[1:], rapid.SampledFrom([]uint32{0, 1, 5, 1 << 22, 1<<22 + 1, 1<<32 - 1}).Draw(t, "len"))
			c.Body = append(hdr, rapid.SliceOfN(rapid.Byte(), 0, 10).Draw(t, "rest")...)
		case 2: // almost-JSON
			c.Body = []byte(rapid.SampledFrom([]string{`"aGk="`, `"aGk"`, `"%%%"`, `{`, `[]`, `null`, `""`, `"aGk=" trailing`, `12`}).Draw(t, "json"))
		case 3: // base64 of something, possibly corrupt
			raw := rapid.SliceOfN(rapid.Byte(), 0, 20).Draw(t, "b64raw")
			s := base64.StdEncoding.EncodeToString(append([]byte{0, 0, 0, 0, byte(len(raw))}, raw...))
			if rapid.Bool().Draw(t, "corrupt") && len(s) > 2 {
				s = s[:len(s)/2] + "!" + s[len(s)/2+1:]
			}
			c.Body = []byte(s)
		default:
			c.Body = nil
		}
		return c
	})
	pbt.Check(t, pbt.Prop[bodyCase]{ID: "C13", Name: "http_bodies", Gen: pbt.G(gen), Run: runBody})
}
