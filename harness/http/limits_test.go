package http

import (
	"bytes"
	"encoding/base64"
	"encoding/binary"
	"fmt"
	"net/http/httptest"
	"runtime"
	"strings"
	"testing"

	"pgregory.net/rapid"
	"storj.io/drpc"
	"storj.io/drpc/drpchttp"

	"verif/pbt"
)

const limit = 4 << 20 // documented size limit of the gateway (drpchttp: maxSize)

type limitCase struct {
	CT       string
	Dir      string // "request" or "response"
	Size     int    // actual message size
	Declared int64  // grpc-web request: declared frame length (-1: honest)
	BadB64   bool   // text mode: corrupt the base64
}

func fill(n int) []byte {
	b := make([]byte, n)
	for i := range b {
		b[i] = byte(i*7 + i>>8)
	}
	return b
}

func runLimit(c limitCase) (r pbt.Result) {
	grpcweb := strings.HasPrefix(c.CT, "application/grpc-web")
	text := strings.Contains(c.CT, "-text")
	var gotReq []byte
	var recvErr, sendErr error
	gotSet := false
	var respMsg []byte
	if c.Dir == "response" {
		respMsg = fill(c.Size)
	}
	h := drpchttp.New(hf(func(s drpc.Stream, rpc string) error {
		var b []byte
		if err := s.MsgRecv(&b, rawEnc{}); err != nil {
			recvErr = err
			return err
		}
		gotReq, gotSet = b, true
		if respMsg != nil {
			if err := s.MsgSend(&respMsg, rawEnc{}); err != nil {
				sendErr = err
				return err
			}
		}
		return nil
	}))
	var reqMsg []byte
	if c.Dir == "request" {
		reqMsg = fill(c.Size)
	} else {
		reqMsg = []byte("small")
	}
	body := reqMsg
	if grpcweb {
		hdr := make([]byte, 5)
		decl := uint32(len(reqMsg))
		if c.Declared >= 0 {
			decl = uint32(c.Declared)
		}
		binary.BigEndian.PutUint32(hdr[1:], decl)
		body = append(hdr, reqMsg...)
		if text {
			body = []byte(base64.StdEncoding.EncodeToString(body))
			if c.BadB64 && len(body) > 3 {
				body[len(body)/2] = '!'
			}
		}
	}
	req := httptest.NewRequest("POST", "/svc.Service/Method", bytes.NewReader(body))
	req.Header.Set("Content-Type", c.CT)
	rec := httptest.NewRecorder()
	var m0, m1 runtime.MemStats
	runtime.ReadMemStats(&m0)
	h.ServeHTTP(rec, req)
	runtime.ReadMemStats(&m1)
	res := rec.Result()
	honest := c.Declared < 0 || c.Declared == int64(len(reqMsg))
	failed := false
	if grpcweb {
		out := rec.Body.Bytes()
		if text {
			out, _ = b64chunks(out)
		}
		// last frame is the trailer
		failed = !bytes.Contains(out, []byte("grpc-status: 0\r\n"))
	} else {
		failed = res.StatusCode != 200
	}
	switch c.Dir {
	case "request":
		if gotSet && honest && !c.BadB64 && !bytes.Equal(gotReq, reqMsg) {
			r.Failf("handler received a truncated or altered request body")
			r.Detailf("sent %d bytes, handler saw %d", len(reqMsg), len(gotReq))
			return
		}
		if gotSet && !honest && int64(len(gotReq)) != c.Declared {
			r.Failf("handler received a body that is not the declared frame")
			return
		}
		if gotSet && !honest && c.Declared > int64(len(reqMsg)) {
			r.Failf("a frame shorter than declared was handed to the handler")
			return
		}
		if honest && !c.BadB64 && c.Size <= limit && !gotSet {
			r.Failf("request at or under the size limit was rejected")
			r.Detailf("size %d err %v", c.Size, recvErr)
			return
		}
		if honest && c.Size > limit {
			if gotSet {
				r.Failf("request over the size limit reached the handler")
				r.Detailf("size %d, handler saw %d bytes", c.Size, len(gotReq))
				return
			}
			if !failed {
				r.Failf("request over the size limit did not produce an error response")
				return
			}
			r.Label("over_limit_rejected")
		}
		if !gotSet && !failed {
			r.Failf("a rejected request produced a success response")
			return
		}
	case "response":
		if !gotSet {
			r.Failf("small request was not delivered")
			return
		}
		if c.Size > limit && sendErr == nil && grpcweb {
			r.Failf("response message over the size limit was accepted")
			return
		}
		if sendErr == nil {
			// delivered: must be intact
			out := rec.Body.Bytes()
			if text {
				out, _ = b64chunks(out)
			}
			if grpcweb {
				if len(out) < 5+c.Size || !bytes.Equal(out[5:5+c.Size], respMsg) || int(binary.BigEndian.Uint32(out[1:5])) != c.Size {
					r.Failf("response message was truncated or altered")
					return
				}
			} else if !bytes.Equal(out, respMsg) {
				r.Failf("response message was truncated or altered")
				return
			}
			if c.Size < limit {
				r.Label("under_limit_delivered")
			}
		} else {
			if c.Size < limit {
				r.Failf("response message under the size limit was rejected")
				return
			}
			if !failed {
				r.Failf("rejected response message did not produce an error status")
				return
			}
			r.Label("over_limit_rejected")
		}
	}
	// allocation bound: a handful of copies of at most limit-sized buffers, never the declared 4 GiB
	alloc := int64(m1.TotalAlloc - m0.TotalAlloc)
	budget := int64(12*limit) + 8*int64(len(body)) + 1<<20
	if alloc > budget {
		r.Failf("gateway allocated far more than its size limit allows")
		r.Detailf("alloc=%d budget=%d", alloc, budget)
		return
	}
	r.Label("dir_" + c.Dir)
	if !honest {
		r.Label("dishonest_length")
	}
	if c.BadB64 {
		r.Label("bad_base64")
	}
	r.NonTrivial = true
	r.Key = fmt.Sprintf("%+v", c)
	return
}

func genLimit() *rapid.Generator[limitCase] {
	return rapid.Custom(func(t *rapid.T) limitCase {
		c := limitCase{Declared: -1}
		c.CT = rapid.SampledFrom([]string{"application/proto", "text/weird", "application/grpc-web+proto", "application/grpc-web-text+proto"}).Draw(t, "ct")
		grpcweb := strings.HasPrefix(c.CT, "application/grpc-web")
		c.Dir = rapid.SampledFrom([]string{"request", "request", "response"}).Draw(t, "dir")
		c.Size = rapid.SampledFrom([]int{0, 1, 1000, limit - 1, limit, limit + 1, limit + 2, limit + 1000, 2 * limit}).Draw(t, "size")
		if grpcweb && c.Dir == "request" && rapid.IntRange(0, 2).Draw(t, "dishonest") == 0 {
			c.Size = rapid.SampledFrom([]int{0, 1, 5, 1000}).Draw(t, "short")
			c.Declared = rapid.SampledFrom([]int64{0, 1, 2, 1001, limit - 1, limit, limit + 1, 1<<32 - 1, 1 << 31}).Draw(t, "declared")
		}
		if strings.Contains(c.CT, "-text") && c.Dir == "request" && rapid.IntRange(0, 4).Draw(t, "badb64") == 0 {
			c.BadB64 = true
			if c.Size > 5000 {
				c.Size = 5000
			}
		}
		return c
	})
}

func TestC14Limits(t *testing.T) {
	pbt.Check(t, pbt.Prop[limitCase]{ID: "C14", Name: "limits", Gen: pbt.G(genLimit()), Run: runLimit})
}
