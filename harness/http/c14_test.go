// Package http holds the checks of the HTTP gateway: C14 and the gateway part of C13.
package http

import (
	"bytes"
	"context"
	"encoding/base64"
	"encoding/binary"
	"encoding/hex"
	"encoding/json"
	"fmt"
	"io"
	nethttp "net/http"
	"net/http/httptest"
	"net/url"
	"strconv"
	"strings"
	"testing"
	"unicode/utf8"

	"pgregory.net/rapid"
	"storj.io/drpc"
	"storj.io/drpc/drpchttp"
	"storj.io/drpc/drpcmetadata"

	"verif/gens"
	"verif/pbt"
)

type rawEnc struct{}

func (rawEnc) Marshal(msg drpc.Message) ([]byte, error) { return *(msg.(*[]byte)), nil }
func (rawEnc) Unmarshal(buf []byte, msg drpc.Message) error {
	*(msg.(*[]byte)) = append([]byte(nil), buf...)
	return nil
}

// jsonEnc is an encoding that brings its own JSON form (the gateway must prefer it over the
// generic base64 fallback): the JSON form is {"hex":"<hex of the bytes>"}.
type jsonEnc struct{ rawEnc }

func (jsonEnc) JSONMarshal(msg drpc.Message) ([]byte, error) {
	return []byte(fmt.Sprintf(`{"hex":"%x"}`, *(msg.(*[]byte)))), nil
}

func (jsonEnc) JSONUnmarshal(buf []byte, msg drpc.Message) error {
	var v struct{ Hex string }
	if err := json.Unmarshal(buf, &v); err != nil {
		return err
	}
	b, err := hex.DecodeString(v.Hex)
	if err != nil {
		return err
	}
	*(msg.(*[]byte)) = b
	return nil
}

type hf func(stream drpc.Stream, rpc string) error

func (h hf) HandleRPC(stream drpc.Stream, rpc string) error { return h(stream, rpc) }

// status table copied from the Twirp specification (not from the code under test)
var twirpStatus = map[string]int{"canceled": 408, "unknown": 500, "invalid_argument": 400, "malformed": 400, "deadline_exceeded": 408,
	"not_found": 404, "bad_route": 404, "already_exists": 409, "permission_denied": 403, "unauthenticated": 401, "resource_exhausted": 429,
	"failed_precondition": 412, "aborted": 409, "out_of_range": 400, "unimplemented": 501, "internal": 500, "unavailable": 503, "dataloss": 500}

type metaEntry struct {
	K, V  []byte
	Mode  int    // 0 escaped k=v, 1 key only (no '='), 2 raw header value (possibly malformed)
	Raw   []byte // for mode 2
	Upper bool   // hex digits in upper case
}

type httpCase struct {
	// OwnJSON: the handler's encoding provides JSONMarshal/JSONUnmarshal itself
	OwnJSON bool
	CT      string
	Req     []byte
	Msgs    [][]byte
	Err     *gens.ErrSpec
	Meta    []metaEntry
	// OtherGateway: content type for which another gateway in the process installs its own protocol ("" = none)
	OtherGateway string
}

func esc(s []byte, upper bool) string {
	var sb strings.Builder
	for _, c := range s {
		if c >= 'a' && c <= 'z' || c >= 'A' && c <= 'Z' || c >= '0' && c <= '9' || c == '.' || c == '-' || c == '+' || c == ' ' || c == '/' {
			sb.WriteByte(c)
		} else if upper {
			fmt.Fprintf(&sb, "%%%02X", c)
		} else {
			fmt.Fprintf(&sb, "%%%02x", c)
		}
	}
	return sb.String()
}

// refDecodeEntry is the reference decoding of one header value: split at the first '=',
// percent-decode both sides ('+' stays '+').
func refDecodeEntry(h string) (k, v string, err error) {
	if i := strings.IndexByte(h, '='); i >= 0 {
		if v, err = url.PathUnescape(h[i+1:]); err != nil {
			return
		}
		h = h[:i]
	}
	k, err = url.PathUnescape(h)
	return
}

func grpcFrame(flag byte, data []byte) []byte {
	b := make([]byte, 5, 5+len(data))
	b[0] = flag
	binary.BigEndian.PutUint32(b[1:], uint32(len(data)))
	return append(b, data...)
}

// b64chunks decodes a concatenation of independently padded base64 chunks.
func b64chunks(s []byte) ([]byte, error) {
	var out []byte
	for len(s) > 0 {
		n := len(s)
		if i := bytes.IndexByte(s, '='); i >= 0 {
			n = i
			for n < len(s) && s[n] == '=' {
				n++
			}
		}
		d, err := base64.StdEncoding.DecodeString(string(s[:n]))
		if err != nil {
			return nil, err
		}
		out = append(out, d...)
		s = s[n:]
	}
	return out, nil
}

// jsonCoerce mirrors what encoding/json does to invalid UTF-8: each bad byte becomes U+FFFD.
func jsonCoerce(s string) string {
	if utf8.ValidString(s) {
		return s
	}
	var sb strings.Builder
	for i := 0; i < len(s); {
		r, n := utf8.DecodeRuneInString(s[i:])
		if r == utf8.RuneError && n == 1 {
			sb.WriteRune(utf8.RuneError)
		} else {
			sb.WriteString(s[i : i+n])
		}
		i += n
	}
	return sb.String()
}

func trimSpaceTab(s string) string { return strings.Trim(s, " \t") }

func normTrailer(s string) string {
	return trimSpaceTab(strings.NewReplacer("\n", " ", "\r", " ").Replace(s))
}

// expectedCode: the string code the gateway must report for the error spec.
func expectedCode(s gens.ErrSpec) (string, bool) {
	if tc, ok := s.ExpectedTwirpCode(); ok {
		return tc, true
	}
	if s.Twirp != nil && s.Odd != "" {
		return "", false
	}
	dc, ok := s.ExpectedCode()
	if !ok {
		return "", false
	}
	if s.Odd == "code_arity" || s.Odd == "code_bool" {
		// a Code method of another shape is not a code
	}
	if dc != 0 {
		return fmt.Sprintf("drpcerr(%d)", dc), true
	}
	return "unknown", true
}

func runHTTP(c httpCase) (r pbt.Result) {
	grpcweb := strings.HasPrefix(c.CT, "application/grpc-web")
	text := strings.Contains(c.CT, "-text")
	jsonMode := strings.HasSuffix(c.CT, "json")
	var herr error
	if c.Err != nil {
		herr = c.Err.Build()
	}
	var gotReq []byte
	var gotMeta map[string]string
	called, recvFailed := 0, false
	sendErrs := 0
	var henc drpc.Encoding = rawEnc{}
	if c.OwnJSON {
		henc = jsonEnc{}
	}
	if c.OtherGateway != "" {
		// another gateway of the same process was configured with a protocol of its own for this content type:
		// that is its business and must not change how this gateway answers
		_ = drpchttp.NewWithOptions(hf(func(drpc.Stream, string) error { return nil }), drpchttp.WithProtocol(c.OtherGateway, teapotProtocol{}))
	}
	h := drpchttp.New(hf(func(s drpc.Stream, rpc string) error {
		called++
		md, _ := drpcmetadata.Get(s.Context())
		gotMeta = md
		var b []byte
		if err := s.MsgRecv(&b, henc); err != nil {
			recvFailed = true
			return err
		}
		gotReq = b
		for _, m := range c.Msgs {
			m := m
			if err := s.MsgSend(&m, henc); err != nil {
				sendErrs++
				return err
			}
		}
		return herr
	}))
	payload := c.Req
	if jsonMode {
		payload, _ = json.Marshal(c.Req)
		if c.OwnJSON {
			payload = []byte(fmt.Sprintf(`{"hex":"%x"}`, c.Req))
		}
	}
	body := payload
	if grpcweb {
		body = grpcFrame(0, payload)
		if text {
			body = []byte(base64.StdEncoding.EncodeToString(body))
		}
	}
	req := httptest.NewRequest("POST", "/svc.Service/Method", bytes.NewReader(body))
	req.Header.Set("Content-Type", c.CT)
	wantMeta := map[string]string{}
	malformed := false
	for _, e := range c.Meta {
		var hv string
		switch e.Mode {
		case 0:
			hv = esc(e.K, e.Upper) + "=" + esc(e.V, e.Upper)
		case 1:
			hv = esc(e.K, e.Upper)
		default:
			hv = string(e.Raw)
		}
		req.Header.Add("X-Drpc-Metadata", hv)
		k, v, err := refDecodeEntry(hv)
		if err != nil {
			malformed = true
			continue
		}
		if e.Mode == 0 && (k != string(e.K) || v != string(e.V)) {
			r.Failf("harness: reference decoder does not invert the escaper")
			return
		}
		wantMeta[k] = v
	}
	if malformed {
		wantMeta = map[string]string{}
		r.Label("meta_malformed")
	}
	rec := httptest.NewRecorder()
	h.ServeHTTP(rec, req)
	res := rec.Result()

	if called != 1 {
		r.Failf("handler called %d times", called)
		return
	}
	if recvFailed {
		r.Failf("gateway failed to hand a well-formed request to the handler")
		return
	}
	if !bytes.Equal(gotReq, c.Req) {
		r.Failf("handler received a different request message")
		r.Detailf("got %x want %x", gotReq, c.Req)
		return
	}
	if len(gotMeta) != len(wantMeta) {
		r.Failf("handler metadata differs from the percent-decoded header entries")
		r.Detailf("got %q want %q", gotMeta, wantMeta)
		return
	}
	for k, v := range wantMeta {
		if gv, ok := gotMeta[k]; !ok || gv != v {
			r.Failf("handler metadata differs from the percent-decoded header entries")
			r.Detailf("got %q want %q", gotMeta, wantMeta)
			return
		}
	}
	if len(c.Meta) > 0 {
		r.Label("meta")
	}
	enc := func(m []byte) []byte {
		if jsonMode && c.OwnJSON {
			return []byte(fmt.Sprintf(`{"hex":"%x"}`, m))
		}
		if jsonMode {
			b, _ := json.Marshal(m)
			return b
		}
		return m
	}
	if c.OwnJSON && jsonMode {
		r.Label("encoding_with_own_json")
	}
	isErr := c.Err != nil
	errText := ""
	if isErr {
		errText = herr.Error()
	}
	var wantCode string
	codeFixed := false
	if isErr {
		wantCode, codeFixed = expectedCode(*c.Err)
	}
	r.Label("ct_" + c.CT)
	if isErr {
		r.Label("outcome_error")
	} else {
		r.Label("outcome_ok")
	}
	out := rec.Body.Bytes()
	if !grpcweb {
		// Twirp-style
		if len(c.Msgs) >= 2 {
			// a Twirp response carries one message: a handler that sends a second one must be refused, and the
			// call must not be answered with a success that holds only part of what the handler sent
			r.Label("twirp_second_message")
			if sendErrs == 0 {
				r.Failf("twirp accepted a second response message")
				return
			}
			if res.StatusCode == 200 {
				r.Failf("twirp answered success although the handler's messages could not all be carried")
				return
			}
			r.NonTrivial = true
			kb, _ := json.Marshal(c)
			r.Key = string(kb)
			return
		}
		if sendErrs > 0 {
			r.Failf("harness: a single twirp response message was refused")
			return
		}
		if !isErr {
			if res.StatusCode != 200 {
				r.Failf("twirp success answered with a non-200 status")
				r.Detailf("%d", res.StatusCode)
				return
			}
			var want []byte
			if len(c.Msgs) > 0 {
				want = enc(c.Msgs[len(c.Msgs)-1])
			}
			if !bytes.Equal(out, want) {
				r.Failf("twirp success body is not the handler's message")
				r.Detailf("got %q want %q", out, want)
				return
			}
			wantCT := c.CT
			if c.CT != "application/json" {
				wantCT = "application/proto"
			}
			if got := res.Header.Get("Content-Type"); got != wantCT {
				r.Failf("twirp success content type wrong")
				r.Detailf("got %q want %q", got, wantCT)
				return
			}
		} else {
			if res.StatusCode == 200 {
				r.Failf("twirp failure answered 200")
				return
			}
			if got := res.Header.Get("Content-Type"); got != "application/json" {
				r.Failf("twirp error response content type is not application/json")
				r.Detailf("got %q", got)
				return
			}
			var obj map[string]interface{}
			if err := json.Unmarshal(out, &obj); err != nil || len(obj) != 2 {
				r.Failf("twirp error body is not a JSON object with code and msg")
				r.Detailf("%v %q", err, out)
				return
			}
			if obj["msg"] != jsonCoerce(errText) {
				r.Failf("twirp error msg differs from the handler error text")
				r.Detailf("got %q want %q", obj["msg"], jsonCoerce(errText))
				return
			}
			if codeFixed {
				if obj["code"] != jsonCoerce(wantCode) {
					r.Failf("twirp error code differs from the handler error's code")
					r.Detailf("got %q want %q", obj["code"], wantCode)
					return
				}
				wantStatus := twirpStatus[wantCode]
				if wantStatus == 0 {
					wantStatus = 500
				}
				if res.StatusCode != wantStatus {
					r.Failf("twirp HTTP status does not follow the status table")
					r.Detailf("code %q status %d want %d", wantCode, res.StatusCode, wantStatus)
					return
				}
			}
		}
	} else {
		if res.StatusCode != 200 {
			r.Failf("grpc-web response status is not 200")
			return
		}
		if got := res.Header.Get("Content-Type"); got != c.CT {
			r.Failf("grpc-web response content type differs from the request's")
			return
		}
		raw := out
		if text {
			var err error
			raw, err = b64chunks(out)
			if err != nil {
				r.Failf("grpc-web-text body is not base64")
				r.Detailf("%v %q", err, out)
				return
			}
		}
		var frames [][]byte
		var flags []byte
		for len(raw) > 0 {
			if len(raw) < 5 || int(binary.BigEndian.Uint32(raw[1:5])) > len(raw)-5 {
				r.Failf("grpc-web body has a truncated frame")
				return
			}
			n := binary.BigEndian.Uint32(raw[1:5])
			flags = append(flags, raw[0])
			frames = append(frames, raw[5:5+n])
			raw = raw[5+n:]
		}
		if len(frames) != len(c.Msgs)+1 {
			r.Failf("grpc-web body does not hold exactly the handler's messages plus one trailer frame")
			r.Detailf("frames=%d msgs=%d", len(frames), len(c.Msgs))
			return
		}
		for i, m := range c.Msgs {
			if flags[i] != 0 || !bytes.Equal(frames[i], enc(m)) {
				r.Failf("grpc-web message frame differs from the handler's message")
				r.Detailf("frame %d flag %d %q want %q", i, flags[i], frames[i], enc(m))
				return
			}
		}
		if flags[len(flags)-1] != 0x80 {
			r.Failf("grpc-web trailer frame flag is not 0x80")
			return
		}
		tr := string(frames[len(frames)-1])
		if !strings.HasSuffix(tr, "\r\n") {
			r.Failf("grpc-web trailer block is not CRLF terminated")
			return
		}
		lines := strings.Split(strings.TrimSuffix(tr, "\r\n"), "\r\n")
		wantKeys := []string{"grpc-status"}
		if isErr {
			wantKeys = []string{"grpc-status", "grpc-code", "grpc-message"}
		}
		if len(lines) != len(wantKeys) {
			r.Failf("grpc-web trailer has extra or missing lines (injection?)")
			r.Detailf("%q", lines)
			return
		}
		vals := map[string]string{}
		for i, ln := range lines {
			if strings.ContainsAny(ln, "\r\n") {
				r.Failf("bare CR or LF inside a grpc-web trailer line")
				r.Detailf("%q", ln)
				return
			}
			pre := wantKeys[i] + ": "
			if !strings.HasPrefix(ln, pre) {
				r.Failf("grpc-web trailer line has an unexpected key")
				r.Detailf("%q", ln)
				return
			}
			vals[wantKeys[i]] = ln[len(pre):]
		}
		status := vals["grpc-status"]
		if (status != "0") != isErr {
			r.Failf("grpc-status non-zero iff failed is violated")
			r.Detailf("status %q isErr %v", status, isErr)
			return
		}
		if isErr {
			if dc, ok := c.Err.ExpectedCode(); ok {
				want := strconv.FormatUint(dc, 10)
				if want == "0" {
					want = "2"
				}
				if status != want {
					r.Failf("grpc-status is not the error's code")
					r.Detailf("got %q want %q", status, want)
					return
				}
			}
			if got := vals["grpc-message"]; got != normTrailer(errText) {
				r.Failf("grpc-message differs from the handler error text")
				r.Detailf("got %q want %q", got, normTrailer(errText))
				return
			}
			if codeFixed && vals["grpc-code"] != normTrailer(wantCode) {
				r.Failf("grpc-code differs from the handler error's code")
				r.Detailf("got %q want %q", vals["grpc-code"], wantCode)
				return
			}
		}
	}
	if isErr && strings.ContainsAny(errText, "\r\n") {
		r.Label("crlf_in_error")
	}
	if isErr && !utf8.ValidString(errText) {
		r.Label("nonutf8_error")
	}
	if isErr && c.Err.Odd != "" {
		r.Label("odd_" + c.Err.Odd)
	}
	r.Label(fmt.Sprintf("msgs_%d", len(c.Msgs)))
	r.NonTrivial = isErr || len(c.Msgs) >= 2 || len(c.Meta) > 0
	kb, _ := json.Marshal(c)
	r.Key = string(kb)
	return
}

var contentTypes = []string{"application/proto", "application/json", "text/weird", "application/proto; charset=utf-8", "",
	"application/grpc-web+proto", "application/grpc-web+json", "application/grpc-web-text+proto", "application/grpc-web-text+json"}

func genMetaEntry(allowMalformed bool) *rapid.Generator[metaEntry] {
	bs := rapid.OneOf(rapid.SampledFrom([][]byte{nil, []byte("k"), []byte("a=b"), []byte("100%"), []byte("%41"), []byte("ü"), {0xff, 0x80}, []byte("x y+z"), []byte("%"), []byte("%%")}),
		rapid.SliceOfN(rapid.Byte(), 0, 10))
	return rapid.Custom(func(t *rapid.T) metaEntry {
		e := metaEntry{K: bs.Draw(t, "k"), V: bs.Draw(t, "v"), Upper: rapid.Bool().Draw(t, "upper")}
		m := rapid.IntRange(0, 9).Draw(t, "mode")
		switch {
		case m <= 6:
			e.Mode = 0
		case m == 7:
			e.Mode = 1
		default:
			if !allowMalformed {
				e.Mode = 0
				break
			}
			e.Mode = 2
			n := rapid.IntRange(0, 12).Draw(t, "rawlen")
			e.Raw = make([]byte, n)
			for i := range e.Raw {
				e.Raw[i] = rapid.SampledFrom([]byte{'%', '%', '=', '4', '1', 'a', 'F', 'g', 'G', 'z', ' ', '+', 0xff}).Draw(t, "rb")
			}
		}
		return e
	})
}

func genHTTP() *rapid.Generator[httpCase] {
	return rapid.Custom(func(t *rapid.T) httpCase {
		c := httpCase{CT: rapid.SampledFrom(contentTypes).Draw(t, "ct"), OwnJSON: rapid.Bool().Draw(t, "ownjson")}
		grpcweb := strings.HasPrefix(c.CT, "application/grpc-web")
		c.Req = rapid.SliceOfN(rapid.Byte(), 0, 60).Draw(t, "req")
		n := 1
		if grpcweb {
			n = rapid.IntRange(0, 5).Draw(t, "nmsgs")
		} else if k := rapid.IntRange(0, 5).Draw(t, "nomsg"); k == 0 {
			n = 0
		} else if k == 1 {
			n = 2 // one more than a Twirp response can carry
		}
		for i := 0; i < n; i++ {
			c.Msgs = append(c.Msgs, rapid.SliceOfN(rapid.Byte(), 0, 50).Draw(t, "msg"))
		}
		if rapid.IntRange(0, 2).Draw(t, "fail") > 0 {
			e := gens.GenErr(3000, !pbt.Excluded("F3") || true).Draw(t, "err")
			c.Err = &e
		}
		c.Meta = rapid.SliceOfN(genMetaEntry(true), 0, 4).Draw(t, "meta")
		if rapid.IntRange(0, 3).Draw(t, "othergw") == 0 {
			c.OtherGateway = rapid.SampledFrom([]string{c.CT, "*", "application/json"}).Draw(t, "othergwct")
			if c.OtherGateway == "" {
				c.OtherGateway = "*"
			}
		}
		return c
	})
}

func TestC14Gateway(t *testing.T) {
	pbt.Check(t, pbt.Prop[httpCase]{ID: "C14", Name: "gateway", Gen: pbt.G(genHTTP()), Run: runHTTP})
}

// teapotProtocol is a custom protocol some other gateway uses: every call is answered 418.
type teapotProtocol struct{}

type teapotStream struct {
	rw  nethttp.ResponseWriter
	ctx context.Context
}

func (teapotProtocol) NewStream(rw nethttp.ResponseWriter, req *nethttp.Request) drpchttp.Stream {
	return &teapotStream{rw: rw, ctx: req.Context()}
}
func (t *teapotStream) Context() context.Context                          { return t.ctx }
func (t *teapotStream) MsgSend(msg drpc.Message, enc drpc.Encoding) error { return nil }
func (t *teapotStream) MsgRecv(msg drpc.Message, enc drpc.Encoding) error { return io.EOF }
func (t *teapotStream) CloseSend() error                                  { return nil }
func (t *teapotStream) Close() error                                      { return nil }
func (t *teapotStream) Finish(err error)                                  { t.rw.WriteHeader(418) }
