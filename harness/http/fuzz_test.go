package http

import "testing"

func FuzzMetadataHeader(f *testing.F) {
	f.Add([]byte("k=v"), []byte("%41=%zz"))
	f.Add([]byte("%"), []byte("%%"))
	f.Add([]byte("a%3Db=c%25"), []byte(""))
	f.Fuzz(func(t *testing.T, a, b []byte) {
		r := runHeader(headerCase{Values: [][]byte{a, b}})
		if r.Fail != "" {
			t.Fatalf("%s\n%s", r.Fail, r.Detail)
		}
	})
}
