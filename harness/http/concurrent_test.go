package http

import (
	"bytes"
	"encoding/base64"
	"fmt"
	nethttp "net/http"
	"net/http/httptest"
	"sync"
	"testing"

	"pgregory.net/rapid"
	"storj.io/drpc"
	"storj.io/drpc/drpchttp"

	"verif/pbt"
	"verif/sim"
)

// C14 with two requests in flight on one gateway: the first response is held inside its ResponseWriter's first Write
// (a slow client) while a second request of the same content type is answered completely; each client must then
// have received exactly its own handler's messages.

type concCase struct {
	CT   string
	A, B [][]byte // messages of the two handlers
}

// parkingWriter holds its first Write until released.
type parkingWriter struct {
	*httptest.ResponseRecorder
	mu      sync.Mutex
	parked  bool
	release chan struct{}
}

func (p *parkingWriter) Write(b []byte) (int, error) {
	p.mu.Lock()
	first := !p.parked
	p.parked = true
	p.mu.Unlock()
	if first {
		<-p.release
	}
	return p.ResponseRecorder.Write(b)
}

func decodeGrpcWeb(body []byte, text bool) (msgs [][]byte, ok bool) {
	if text {
		var err error
		if body, err = b64chunks(body); err != nil {
			return nil, false
		}
	}
	for len(body) >= 5 {
		n := int(body[1])<<24 | int(body[2])<<16 | int(body[3])<<8 | int(body[4])
		if len(body) < 5+n {
			return nil, false
		}
		if body[0]&0x80 == 0 {
			msgs = append(msgs, append([]byte(nil), body[5:5+n]...))
		}
		body = body[5+n:]
	}
	return msgs, len(body) == 0
}

func runConcurrent(c concCase) (r pbt.Result) {
	text := c.CT == "application/grpc-web-text+proto"
	h := drpchttp.New(hf(func(s drpc.Stream, rpc string) error {
		var b []byte
		if err := s.MsgRecv(&b, rawEnc{}); err != nil {
			return err
		}
		msgs := c.A
		if len(b) > 0 && b[0] == 'B' {
			msgs = c.B
		}
		for _, m := range msgs {
			m := m
			if err := s.MsgSend(&m, rawEnc{}); err != nil {
				return err
			}
		}
		return nil
	}))
	mkReq := func(tag byte) *nethttp.Request {
		body := grpcFrame(0, []byte{tag})
		if text {
			body = []byte(base64.StdEncoding.EncodeToString(body))
		}
		req := httptest.NewRequest("POST", "/svc.Service/Method", bytes.NewReader(body))
		req.Header.Set("Content-Type", c.CT)
		return req
	}
	pw := &parkingWriter{ResponseRecorder: httptest.NewRecorder(), release: make(chan struct{})}
	doneA := make(chan struct{})
	go func() { defer close(doneA); h.ServeHTTP(pw, mkReq('A')) }()
	sim.WaitQuiescent()
	recB := httptest.NewRecorder()
	h.ServeHTTP(recB, mkReq('B'))
	close(pw.release)
	<-doneA
	check := func(name string, body []byte, want [][]byte) bool {
		got, ok := decodeGrpcWeb(body, text)
		if !ok || len(got) != len(want) {
			r.Failf("a response carried other frames than its handler's messages while another request was in flight")
			r.Detailf("%s: got %d messages (well-formed=%v), want %d", name, len(got), ok, len(want))
			return false
		}
		for i := range want {
			if !bytes.Equal(got[i], want[i]) {
				r.Failf("a response carried another request's bytes")
				r.Detailf("%s message %d: got %x want %x", name, i, got[i], want[i])
				return false
			}
		}
		return true
	}
	if !check("first (held) response", pw.Body.Bytes(), c.A) || !check("second response", recB.Body.Bytes(), c.B) {
		return
	}
	r.Label("ct_" + c.CT)
	r.NonTrivial = len(c.A) > 0 && len(c.B) > 0
	r.Key = fmt.Sprintf("%s/%x/%x", c.CT, c.A, c.B)
	return
}

func TestC14Concurrent(t *testing.T) {
	gen := func(t *rapid.T) concCase {
		msgs := rapid.SliceOfN(rapid.SliceOfN(rapid.Byte(), 1, 40), 1, 3)
		return concCase{CT: rapid.SampledFrom([]string{"application/grpc-web-text+proto", "application/grpc-web-text+proto", "application/grpc-web+proto"}).Draw(t, "ct"),
			A: msgs.Draw(t, "a"), B: msgs.Draw(t, "b")}
	}
	pbt.Check(t, pbt.Prop[concCase]{ID: "C14", Name: "concurrent", Gen: gen, Run: runConcurrent})
}
