package gen

import (
	"testing"

	"verif/pbt"
)

func TestMain(m *testing.M) { pbt.Main(m) }
