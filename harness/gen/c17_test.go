package gen

import (
	"fmt"
	"os"
	"testing"

	"pgregory.net/rapid"

	"verif/pbt"
)

var nameAlphabet = []string{"A", "B", "a_b", "A_B", "Ab", "get_item", "listItems", "Sync_All", "X1", "x2y", "Do_It2", "do_it", "Svc", "my_svc", "M", "Put_Batch", "a1_b2", "S", "Stream", "Client", "Server", "DRPCConn", "SvcUnimplemented"}

func genSpec(t *rapid.T) FileSpec {
	f := FileSpec{
		Package:  rapid.SampledFrom([]string{"p", "a.b_c.d", "pkg_x", "x.Y"}).Draw(t, "package"),
		Alias:    rapid.Bool().Draw(t, "alias"),
		Protolib: rapid.SampledFrom([]string{"", "", "custom", "gogo", "custom_proto"}).Draw(t, "protolib"),
		JSON:     rapid.Bool().Draw(t, "json"),
		OtherPkg: rapid.SampledFrom([]string{"", "", "context", "drpc", "in", "x", "ctx", "srv"}).Draw(t, "otherpkg"),
		TwoFiles: rapid.IntRange(0, 2).Draw(t, "twofiles") == 0,
	}
	// names are distinct after Go protobuf's own camel-casing by construction (no rejection)
	methGen := rapid.Custom(func(t *rapid.T) MethodSpec {
		return MethodSpec{Name: rapid.SampledFrom(nameAlphabet).Draw(t, "meth"), CS: rapid.Bool().Draw(t, "cs"), SS: rapid.Bool().Draw(t, "ss"),
			In: rapid.SampledFrom([]int{0, 0, 1, 2, 3}).Draw(t, "in"), Out: rapid.SampledFrom([]int{1, 1, 0, 2, 3}).Draw(t, "out")}
	})
	f.Services = rapid.SliceOfNDistinct(rapid.Custom(func(t *rapid.T) ServiceSpec {
		s := ServiceSpec{Name: rapid.SampledFrom(nameAlphabet).Draw(t, "svc")}
		s.Methods = rapid.SliceOfNDistinct(methGen, 0, 6, func(m MethodSpec) string { return GoCamelCase(m.Name) }).Draw(t, "methods")
		return s
	}), 1, 4, func(s ServiceSpec) string { return GoCamelCase(s.Name) }).Draw(t, "services")
	return f
}

var shadowedPkgNames = map[string]bool{"in": true, "x": true, "ctx": true, "c": true, "srv": true, "in1": true}

func runSpec(f FileSpec) (r pbt.Result) {
	if !f.wellFormed() {
		r.Label("skipped_go_protobuf_name_clash")
		return
	}
	if shadowedPkgNames[f.OtherPkg] && pbt.Excluded("F26") {
		// known finding F26: the generated function bodies use in, x, ctx, c, srv, in1 as local names; an imported Go
		// package of that name is shadowed there. Excluded by importing the message package under another name.
		r.Excluded = "F26"
		f.OtherPkg = ""
	}
	if f.schemeCollision() && pbt.Excluded("F12") {
		r.Excluded = "F12"
		r.Label("excluded_F12")
		return
	}
	t := setup()
	if t.err != nil {
		panic(inconclusive("toolchain setup: " + t.err.Error()))
	}
	out := generate(t, f)
	switch {
	case out.PluginErr != "":
		// the generator may reject a descriptor; it must then say so instead of emitting broken code
		r.Label("rejected_by_generator")
		r.Detailf("%s", out.PluginErr)
		r.Failf("generator rejected a valid service descriptor")
		return
	case out.BuildErr != "":
		r.Failf("generated code does not type-check against the runtime")
		r.Detailf("%s\n%s", f, out.Output)
		return
	case out.TestErr != "":
		r.Failf("generated client and server do not round-trip every method")
		r.Detailf("%s\n%s", f, out.Output)
		return
	}
	streaming, mangled, imported := false, false, false
	for _, s := range f.Services {
		if GoCamelCase(s.Name) != s.Name {
			mangled = true
		}
		for _, m := range s.Methods {
			streaming = streaming || m.CS || m.SS
			if GoCamelCase(m.Name) != m.Name {
				mangled = true
			}
			imported = imported || m.In >= 2 || m.Out >= 2
		}
	}
	if streaming {
		r.Label("streaming_method")
	}
	if mangled {
		r.Label("identifier_needs_mangling")
	}
	if imported {
		r.Label("imported_message_type")
	}
	if len(f.Services) >= 2 {
		r.Label("services_2plus")
	}
	if f.OtherPkg != "" {
		r.Label("imported_package_named_" + f.OtherPkg)
	}
	if f.TwoFiles {
		r.Label("two_service_files_in_one_invocation")
	}
	if f.Protolib != "" {
		r.Label("protolib_" + f.Protolib)
	}
	r.NonTrivial = len(f.Services) >= 2 || streaming || mangled
	r.Key = f.String()
	r.Sample = f.String()
	return
}

type inconclusive string

func (i inconclusive) Inconclusive() string { return string(i) }

func TestC17Generated(t *testing.T) {
	defer cleanup()
	pbt.Check(t, pbt.Prop[FileSpec]{ID: "C17", Name: "generated", Gen: genSpec, Run: runSpec})
}

var _ = fmt.Sprint
var _ = os.Getenv
