package gen

import (
	"bytes"
	"fmt"
	"os"
	"os/exec"
	"path/filepath"
	"runtime"
	"strings"
	"sync"

	"google.golang.org/protobuf/proto"
	"google.golang.org/protobuf/reflect/protodesc"
	"google.golang.org/protobuf/types/descriptorpb"
	"google.golang.org/protobuf/types/known/wrapperspb"
	"google.golang.org/protobuf/types/pluginpb"
)

func sp(x string) *string { return &x }
func bp(x bool) *bool     { return &x }

var msgNames = []string{"In", "Out", "Page", "BytesValue"}

func (f FileSpec) descriptors(caseDir string) (*pluginpb.CodeGeneratorRequest, string) {
	pkgName := filepath.Base(caseDir)
	goPkg := "verifgen/cases/" + caseDir
	if f.Alias {
		pkgName = "aliased_" + pkgName
		goPkg += ";" + pkgName
	}
	bytesField := func() []*descriptorpb.FieldDescriptorProto {
		return []*descriptorpb.FieldDescriptorProto{{Name: sp("v"), Number: proto.Int32(1), Type: descriptorpb.FieldDescriptorProto_TYPE_BYTES.Enum(), Label: descriptorpb.FieldDescriptorProto_LABEL_OPTIONAL.Enum(), JsonName: sp("v")}}
	}
	// the local request message also has a proto3 string field: a value that is not valid UTF-8 makes every
	// protobuf encoder refuse the message (a request that cannot be marshalled)
	inFields := func() []*descriptorpb.FieldDescriptorProto {
		return append(bytesField(), &descriptorpb.FieldDescriptorProto{Name: sp("s"), Number: proto.Int32(2), Type: descriptorpb.FieldDescriptorProto_TYPE_STRING.Enum(), Label: descriptorpb.FieldDescriptorProto_LABEL_OPTIONAL.Enum(), JsonName: sp("s")})
	}
	other := &descriptorpb.FileDescriptorProto{
		Name: sp(caseDir + "/other.proto"), Package: sp("verif.other"), Syntax: sp("proto3"),
		Options:     &descriptorpb.FileOptions{GoPackage: sp("verifgen/cases/" + caseDir + "/" + f.otherPkg())},
		MessageType: []*descriptorpb.DescriptorProto{{Name: sp("Page"), Field: bytesField()}},
	}
	wk := protodesc.ToFileDescriptorProto(wrapperspb.File_google_protobuf_wrappers_proto)
	fd := &descriptorpb.FileDescriptorProto{
		Name: sp(caseDir + "/svc.proto"), Package: sp(f.Package), Syntax: sp("proto3"),
		Dependency:  []string{caseDir + "/other.proto", "google/protobuf/wrappers.proto"},
		Options:     &descriptorpb.FileOptions{GoPackage: sp(goPkg)},
		MessageType: []*descriptorpb.DescriptorProto{{Name: sp("In"), Field: inFields()}, {Name: sp("Out"), Field: bytesField()}},
	}
	typeName := func(i int) string {
		switch f.kind(i) {
		case 2:
			return ".verif.other.Page"
		case 3:
			return ".google.protobuf.BytesValue"
		case 1:
			return "." + f.Package + ".Out"
		}
		return "." + f.Package + ".In"
	}
	for _, sv := range f.Services {
		sd := &descriptorpb.ServiceDescriptorProto{Name: sp(sv.Name)}
		for _, m := range sv.Methods {
			sd.Method = append(sd.Method, &descriptorpb.MethodDescriptorProto{Name: sp(m.Name), InputType: sp(typeName(m.In)), OutputType: sp(typeName(m.Out)), ClientStreaming: bp(m.CS), ServerStreaming: bp(m.SS)})
		}
		fd.Service = append(fd.Service, sd)
	}
	req := &pluginpb.CodeGeneratorRequest{
		FileToGenerate: []string{caseDir + "/other.proto", caseDir + "/svc.proto"},
		ProtoFile:      []*descriptorpb.FileDescriptorProto{wk, other, fd},
	}
	if f.TwoFiles {
		// a second file of the same proto and Go package with one more service
		fd2 := &descriptorpb.FileDescriptorProto{
			Name: sp(caseDir + "/svc2.proto"), Package: sp(f.Package), Syntax: sp("proto3"),
			Dependency: []string{caseDir + "/svc.proto"},
			Options:    &descriptorpb.FileOptions{GoPackage: sp(goPkg)},
			Service: []*descriptorpb.ServiceDescriptorProto{{Name: sp("SecondFileSvc"), Method: []*descriptorpb.MethodDescriptorProto{
				{Name: sp("Ping"), InputType: sp("." + f.Package + ".In"), OutputType: sp("." + f.Package + ".Out"), ClientStreaming: bp(false), ServerStreaming: bp(false)},
				{Name: sp("Watch"), InputType: sp("." + f.Package + ".In"), OutputType: sp("." + f.Package + ".Out"), ClientStreaming: bp(false), ServerStreaming: bp(true)}}}},
		}
		req.FileToGenerate = append(req.FileToGenerate, caseDir+"/svc2.proto")
		req.ProtoFile = append(req.ProtoFile, fd2)
	}
	return req, pkgName
}

// harnessDir locates /verif/harness (for building the plugins with the module's replace directive).
func harnessDir() string {
	if r := os.Getenv("VERIF_ROOT"); r != "" {
		return filepath.Join(r, "harness")
	}
	_, file, _, _ := runtime.Caller(0)
	return filepath.Dir(filepath.Dir(file))
}

type toolchain struct {
	dir     string // scratch module
	protoc  string
	drpc    string
	gogo    string // protoc-gen-gogo: message code for the gogo protolib
	err     error
	counter int
}

var (
	tcOnce sync.Once
	tc     toolchain
)

var goEnv = []string{"GOFLAGS=-mod=mod", "GOPROXY=off", "GOSUMDB=off", "GOTOOLCHAIN=local", "CGO_ENABLED=0"}

func run(dir string, name string, args ...string) (string, error) {
	cmd := exec.Command(name, args...)
	cmd.Dir = dir
	cmd.Env = append(os.Environ(), goEnv...)
	var out bytes.Buffer
	cmd.Stdout, cmd.Stderr = &out, &out
	err := cmd.Run()
	return out.String(), err
}

// setup builds the two plugins from the current trees and creates the scratch module.
func setup() *toolchain {
	tcOnce.Do(func() {
		base := os.Getenv("VERIF_WORK")
		if base == "" {
			base = os.TempDir()
		}
		dir, err := os.MkdirTemp(base, "gen-")
		if err != nil {
			tc.err = err
			return
		}
		tc.dir = dir
		tc.protoc, tc.drpc = filepath.Join(dir, "bin", "protoc-gen-go"), filepath.Join(dir, "bin", "protoc-gen-go-drpc")
		tc.gogo = filepath.Join(dir, "bin", "protoc-gen-gogo")
		// VERIF_REPO / VERIF_MODFILE: development-only override (bin/mutant-wt) that points the harness at a scratch
		// worktree of storj/drpc instead of /repo; the registered commands never set them.
		repo, modfile := os.Getenv("VERIF_REPO"), []string{}
		if repo == "" {
			repo = "/repo"
		}
		if mf := os.Getenv("VERIF_MODFILE"); mf != "" {
			modfile = []string{"-modfile=" + mf}
		}
		if out, err := run(harnessDir(), "go", append(append([]string{"build"}, modfile...), "-o", tc.protoc, "google.golang.org/protobuf/cmd/protoc-gen-go")...); err != nil {
			tc.err = fmt.Errorf("build protoc-gen-go: %v\n%s", err, out)
			return
		}
		if out, err := run(harnessDir(), "go", append(append([]string{"build"}, modfile...), "-o", tc.gogo, "github.com/gogo/protobuf/protoc-gen-gogo")...); err != nil {
			tc.err = fmt.Errorf("build protoc-gen-gogo: %v\n%s", err, out)
			return
		}
		if out, err := run(harnessDir(), "go", append(append([]string{"build"}, modfile...), "-o", tc.drpc, "storj.io/drpc/cmd/protoc-gen-go-drpc")...); err != nil {
			tc.err = fmt.Errorf("build protoc-gen-go-drpc: %v\n%s", err, out)
			return
		}
		gomod := "module verifgen\n\ngo 1.19\n\nrequire (\n\tgithub.com/gogo/protobuf v1.3.2\n\tgithub.com/zeebo/errs v1.2.2\n\tgoogle.golang.org/protobuf v1.27.1\n\tstorj.io/drpc v0.0.0\n)\n\nreplace storj.io/drpc => " + repo + "\n"
		_ = os.WriteFile(filepath.Join(dir, "go.mod"), []byte(gomod), 0o644)
		sum, _ := os.ReadFile(filepath.Join(repo, "go.sum"))
		_ = os.WriteFile(filepath.Join(dir, "go.sum"), sum, 0o644)
		_ = os.MkdirAll(filepath.Join(dir, "customenc"), 0o755)
		_ = os.WriteFile(filepath.Join(dir, "customenc", "enc.go"), []byte(customEnc), 0o644)
		// the same library under an import path whose last element is "proto", as many encoding packages are called
		_ = os.MkdirAll(filepath.Join(dir, "customlib", "proto"), 0o755)
		_ = os.WriteFile(filepath.Join(dir, "customlib", "proto", "enc.go"), []byte(strings.Replace(customEnc, "package customenc", "package proto", 1)), 0o644)
	})
	return &tc
}

const customEnc = `// Package customenc is a user-supplied protolib for the generator's "protolib" option.
package customenc

import (
	"google.golang.org/protobuf/encoding/protojson"
	"google.golang.org/protobuf/proto"
	"storj.io/drpc"
)

func Marshal(msg drpc.Message) ([]byte, error)           { return proto.Marshal(msg.(proto.Message)) }
func Unmarshal(buf []byte, msg drpc.Message) error        { return proto.Unmarshal(buf, msg.(proto.Message)) }
func JSONMarshal(msg drpc.Message) ([]byte, error)       { return protojson.Marshal(msg.(proto.Message)) }
func JSONUnmarshal(buf []byte, msg drpc.Message) error   { return protojson.Unmarshal(buf, msg.(proto.Message)) }
`

// cleanup removes the scratch module.
func cleanup() {
	if tc.dir != "" {
		_ = os.RemoveAll(tc.dir)
	}
}

type genOutcome struct {
	PluginErr string // the drpc plugin rejected the descriptor
	BuildErr  string // generated code + driver did not compile / vet
	TestErr   string // registration or round trip failed
	Output    string
}

// generate runs both plugins for the spec, writes the files and the driver, and runs it.
func generate(t *toolchain, f FileSpec) (out genOutcome) {
	t.counter++
	caseDir := fmt.Sprintf("c%d", t.counter)
	req, pkgName := f.descriptors(caseDir)
	root := filepath.Join(t.dir, "cases", caseDir)
	defer os.RemoveAll(root)
	param := ""
	if f.Protolib == "custom" {
		param = "protolib=verifgen/customenc"
	}
	if f.Protolib == "gogo" {
		param = "protolib=github.com/gogo/protobuf"
	}
	if f.Protolib == "custom_proto" {
		param = "protolib=verifgen/customlib/proto"
	}
	if !f.JSON {
		if param != "" {
			param += ","
		}
		param += "json=false"
	}
	msgPlugin := t.protoc
	if f.Protolib == "gogo" {
		msgPlugin = t.gogo
	}
	type plugRun struct {
		plug  string
		files []string
	}
	runs := []plugRun{{msgPlugin, req.FileToGenerate}, {t.drpc, req.FileToGenerate}}
	if f.Protolib == "gogo" {
		// protoc-gen-gogo generates one Go package per invocation
		runs = nil
		runs = append(runs, plugRun{msgPlugin, req.FileToGenerate[:1]}) // the imported package
		runs = append(runs, plugRun{msgPlugin, req.FileToGenerate[1:]}) // the service package (one or two files)
		runs = append(runs, plugRun{t.drpc, req.FileToGenerate})
	}
	for _, pr := range runs {
		plug := pr.plug
		r := proto.Clone(req).(*pluginpb.CodeGeneratorRequest)
		r.FileToGenerate = pr.files
		if plug == t.drpc && param != "" {
			r.Parameter = sp(param)
		}
		data, _ := proto.Marshal(r)
		cmd := exec.Command(plug)
		cmd.Stdin = bytes.NewReader(data)
		var so, se bytes.Buffer
		cmd.Stdout, cmd.Stderr = &so, &se
		if err := cmd.Run(); err != nil {
			out.PluginErr = fmt.Sprintf("%s: %v %s", filepath.Base(plug), err, se.String())
			return
		}
		var resp pluginpb.CodeGeneratorResponse
		if err := proto.Unmarshal(so.Bytes(), &resp); err != nil {
			out.PluginErr = "unparseable plugin response"
			return
		}
		if resp.Error != nil {
			out.PluginErr = filepath.Base(plug) + ": " + resp.GetError()
			return
		}
		for _, gf := range resp.File {
			p := filepath.Join(t.dir, strings.TrimPrefix(gf.GetName(), "verifgen/"))
			_ = os.MkdirAll(filepath.Dir(p), 0o755)
			_ = os.WriteFile(p, []byte(gf.GetContent()), 0o644)
		}
	}
	if err := os.WriteFile(filepath.Join(root, "driver_test.go"), []byte(f.driver(pkgName, caseDir)), 0o644); err != nil {
		out.BuildErr = err.Error()
		return
	}
	if o, err := run(t.dir, "go", "vet", "./cases/"+caseDir+"/..."); err != nil {
		out.BuildErr, out.Output = firstLines(o, 12), o
		return
	}
	if o, err := run(t.dir, "go", "test", "-count=1", "-timeout=180s", "./cases/"+caseDir+"/"); err != nil {
		out.TestErr, out.Output = firstLines(o, 12), o
		return
	}
	return
}

func firstLines(s string, n int) string {
	lines := strings.Split(s, "\n")
	if len(lines) > n {
		lines = lines[:n]
	}
	return strings.Join(lines, "\n")
}
