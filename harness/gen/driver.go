package gen

import (
	"fmt"
	"strings"
)

// driver emits the test file that exercises the generated code. Everything in it is derived from
// the spec alone: expected RPC strings, Go names, method signatures, stream type names.
func (f FileSpec) driver(pkgName, caseDir string) string {
	var b strings.Builder
	w := func(format string, a ...any) { fmt.Fprintf(&b, format+"\n", a...) }
	goType := func(i int) string {
		switch f.kind(i) {
		case 1:
			return "Out"
		case 2:
			return "other.Page"
		case 3:
			return "wrapperspb.BytesValue"
		}
		return "In"
	}
	mk := func(i int, expr string) string {
		if f.kind(i) == 3 {
			return "&wrapperspb.BytesValue{Value: " + expr + "}"
		}
		return "&" + goType(i) + "{V: " + expr + "}"
	}
	get := func(i int, expr string) string {
		if f.kind(i) == 3 {
			return expr + ".GetValue()"
		}
		return expr + ".GetV()"
	}
	usesOther, usesWk := false, false
	for _, s := range f.Services {
		for _, m := range s.Methods {
			for _, i := range []int{f.kind(m.In), f.kind(m.Out)} {
				usesOther = usesOther || i == 2
				usesWk = usesWk || i == 3
			}
		}
	}
	w("package %s", pkgName)
	w("import (")
	w(`	"bytes"`)
	w(`	"context"`)
	w(`	"errors"`)
	w(`	"io"`)
	w(`	"net"`)
	w(`	"testing"`)
	w(`	"time"`)
	w(`	"storj.io/drpc"`)
	w(`	"storj.io/drpc/drpcconn"`)
	w(`	"storj.io/drpc/drpcerr"`)
	w(`	"storj.io/drpc/drpcmux"`)
	w(`	"storj.io/drpc/drpcserver"`)
	if usesOther {
		w(`	other "verifgen/cases/%s/%s"`, caseDir, f.otherPkg())
	}
	if usesWk {
		w(`	"google.golang.org/protobuf/types/known/wrapperspb"`)
	}
	w(")")
	w("var _ = errors.New")
	w("var _ = io.EOF")
	w("var _ = bytes.Equal")
	w("var _ = drpcerr.Code")
	ep := f.ErrPath
	failErr := "errors.New(\"unused\")"
	if ep != nil {
		failErr = fmt.Sprintf("drpcerr.WithCode(errors.New(%q), %d)", string(ep.Msg), ep.Code)
	}
	w("func failure() error { return %s }", failErr)
	w("func wantsFailure(b []byte) bool { return bytes.HasPrefix(b, []byte(\"fail\")) }")
	// a recording connection: which RPC names does the client stub use?
	w("type recConn struct { drpc.Conn; rpcs []string }")
	w("func (r *recConn) Invoke(ctx context.Context, rpc string, enc drpc.Encoding, in, out drpc.Message) error { r.rpcs = append(r.rpcs, rpc); return r.Conn.Invoke(ctx, rpc, enc, in, out) }")
	w("func (r *recConn) NewStream(ctx context.Context, rpc string, enc drpc.Encoding) (drpc.Stream, error) { r.rpcs = append(r.rpcs, rpc); return r.Conn.NewStream(ctx, rpc, enc) }")
	for si, s := range f.Services {
		g := GoCamelCase(s.Name)
		w("type impl%d struct{}", si)
		for mi, m := range s.Methods {
			mg := GoCamelCase(m.Name)
			streamT := "DRPC" + esc(g) + "_" + esc(mg) + "Stream"
			tag := fmt.Sprintf("%d.%d:", si, mi)
			switch {
			case !m.CS && !m.SS:
				w("func (impl%d) %s(ctx context.Context, in *%s) (*%s, error) {", si, mg, goType(m.In), goType(m.Out))
				w("	if wantsFailure(%s) { return nil, failure() }", get(m.In, "in"))
				w("	return %s, nil", mk(m.Out, `append([]byte("`+tag+`"), `+get(m.In, "in")+`...)`))
				w("}")
			case !m.CS && m.SS:
				w("func (impl%d) %s(in *%s, stream %s) error {", si, mg, goType(m.In), streamT)
				if ep != nil {
					w("	if wantsFailure(%s) {", get(m.In, "in"))
					w("		for i := 0; i < %d; i++ {", ep.After)
					w("			if err := stream.Send(%s); err != nil { return err }", mk(m.Out, `[]byte("before-failure")`))
					w("		}")
					w("		return failure()")
					w("	}")
				}
				w("	if bytes.Equal(%s, []byte(\"reuse\")) {", get(m.In, "in"))
				w("		if err := stream.Send(%s); err != nil { return err }", mk(m.Out, `[]byte("first")`))
				w("		return stream.Send(%s)", mk(m.Out, `nil`))
				w("	}")
				w("	for i := 0; i < 2; i++ {")
				w("		if err := stream.Send(%s); err != nil { return err }", mk(m.Out, `append([]byte("`+tag+`"), `+get(m.In, "in")+`...)`))
				w("	}")
				w("	return nil")
				w("}")
			case m.CS && !m.SS:
				w("func (impl%d) %s(stream %s) error {", si, mg, streamT)
				w("	var all []byte")
				w("	for {")
				w("		in, err := stream.Recv()")
				w("		if errors.Is(err, io.EOF) { break }")
				w("		if err != nil { return err }")
				w("		all = append(all, %s...)", get(m.In, "in"))
				w("	}")
				w("	if wantsFailure(all) { return failure() }")
				w("	return stream.SendAndClose(%s)", mk(m.Out, `append([]byte("`+tag+`"), all...)`))
				w("}")
			default:
				w("func (impl%d) %s(stream %s) error {", si, mg, streamT)
				w("	for {")
				w("		in, err := stream.Recv()")
				w("		if errors.Is(err, io.EOF) { return nil }")
				w("		if err != nil { return err }")
				w("		if wantsFailure(%s) { return failure() }", get(m.In, "in"))
				w("		if err := stream.Send(%s); err != nil { return err }", mk(m.Out, `append([]byte("`+tag+`"), `+get(m.In, "in")+`...)`))
				w("	}")
				w("}")
			}
		}
		w("var _ DRPC%sServer = impl%d{}", g, si)
		w("var _ DRPC%sServer = &DRPC%sUnimplementedServer{}", g, g)
	}
	// the generated stream types document GetStream() as the way to the runtime's stream (e.g. for SetManualFlush)
	w("func checkGetStream(t *testing.T, st drpc.Stream) {")
	w("	gs, ok := st.(interface{ GetStream() drpc.Stream })")
	w("	if !ok { t.Fatalf(\"generated stream type has no GetStream\") }")
	w("	if _, ok := gs.GetStream().(interface{ SetManualFlush(bool) }); !ok { t.Fatalf(\"GetStream() does not return the runtime's stream (%%T)\", gs.GetStream()) }")
	w("}")
	w("func TestGenerated(t *testing.T) {")
	w("	mux := drpcmux.New()")
	for si, s := range f.Services {
		g := GoCamelCase(s.Name)
		w("	if err := DRPCRegister%s(mux, impl%d{}); err != nil { t.Fatalf(\"register %s: %%v\", err) }", g, si, g)
		w("	{")
		w("		d := DRPC%sDescription{}", g)
		w("		if d.NumMethods() != %d { t.Fatalf(\"NumMethods of %s = %%d\", d.NumMethods()) }", len(s.Methods), g)
		for mi, m := range s.Methods {
			w("		if rpc, _, _, _, ok := d.Method(%d); !ok || rpc != %q { t.Fatalf(\"description rpc %%q ok=%%v, want %%q\", rpc, ok, %q) }", mi, "/"+f.Package+"."+s.Name+"/"+m.Name, "/"+f.Package+"."+s.Name+"/"+m.Name)
		}
		w("		if _, _, _, _, ok := d.Method(%d); ok { t.Fatalf(\"Method(n) of %s reported ok\") }", len(s.Methods), g)
		w("	}")
	}
	w("	c1, c2 := net.Pipe()")
	w("	ctx, cancel := context.WithCancel(context.Background())")
	w("	defer cancel()")
	w("	srv := drpcserver.New(mux)")
	w("	go srv.ServeOne(ctx, c2)")
	w("	conn := &recConn{Conn: drpcconn.New(c1)}")
	w("	callCtx := func() context.Context { c, cancel := context.WithTimeout(ctx, 40*time.Second); _ = cancel; return c }")
	w("	_ = callCtx")
	w("	defer conn.Close()")
	if ep != nil {
		// C10 through the generated stubs: every method is failed by its handler first (the calls of the round trip
		// below then show that the connection is still usable)
		w("	checkFailure := func(what string, err error) {")
		w("		t.Helper()")
		w("		if err == nil { t.Fatalf(\"C10: %%s: the handler failed but the generated client reports no error\", what) }")
		w("		if err.Error() != %q || drpcerr.Code(err) != %d { t.Fatalf(\"C10: %%s: the generated client reports error %%q code %%d, the handler returned %%q code %%d\", what, err.Error(), drpcerr.Code(err), %q, uint64(%d)) }", string(ep.Msg), ep.Code, string(ep.Msg), ep.Code)
		w("	}")
		for _, s := range f.Services {
			g := GoCamelCase(s.Name)
			w("	{")
			w("		cli := NewDRPC%sClient(conn)", g)
			w("		_ = cli")
			for _, m := range s.Methods {
				mg := GoCamelCase(m.Name)
				what := g + "." + mg
				switch {
				case !m.CS && !m.SS:
					w("		{")
					w("			out, err := cli.%s(callCtx(), %s)", mg, mk(m.In, `[]byte("fail")`))
					w("			if out != nil && err != nil { t.Fatalf(\"C10: %s: both a response and an error\") }", what)
					w("			checkFailure(%q, err)", what)
					w("		}")
				case !m.CS && m.SS:
					w("		{")
					w("			st, err := cli.%s(callCtx(), %s)", mg, mk(m.In, `[]byte("fail")`))
					w("			if err == nil {")
					w("				for i := 0; i < %d; i++ {", ep.After)
					w("					out, err := st.Recv()")
					w("					if err != nil || !bytes.Equal(%s, []byte(\"before-failure\")) { t.Fatalf(\"C10: %s: response %%d sent before the failure not received first: %%v\", i, err) }", get(m.Out, "out"), what)
					w("				}")
					w("				_, err = st.Recv()")
					w("				_ = st.Close()")
					w("			}")
					w("			checkFailure(%q, err)", what)
					w("		}")
				case m.CS && !m.SS:
					w("		{")
					w("			st, err := cli.%s(ctx)", mg)
					w("			if err != nil { t.Fatalf(\"C10: %s: %%v\", err) }", what)
					w("			for _, p := range []string{\"fail\", \"ure\"} { if err := st.Send(%s); err != nil { t.Fatalf(\"C10: %s send %%v\", err) } }", mk(m.In, "[]byte(p)"), what)
					w("			_, err = st.CloseAndRecv()")
					w("			_ = st.Close()")
					w("			checkFailure(%q, err)", what)
					w("		}")
				default:
					w("		{")
					w("			st, err := cli.%s(ctx)", mg)
					w("			if err != nil { t.Fatalf(\"C10: %s: %%v\", err) }", what)
					w("			for i := 0; i < %d; i++ {", ep.After)
					w("				if err := st.Send(%s); err != nil { t.Fatalf(\"C10: %s send %%v\", err) }", mk(m.In, `[]byte("ok")`), what)
					w("				out, err := st.Recv()")
					w("				if err != nil || len(%s) == 0 { t.Fatalf(\"C10: %s: echo %%d before the failure: %%v\", i, err) }", get(m.Out, "out"), what)
					w("			}")
					w("			if err := st.Send(%s); err != nil { t.Fatalf(\"C10: %s send %%v\", err) }", mk(m.In, `[]byte("fail")`), what)
					w("			_, err = st.Recv()")
					w("			_ = st.Close()")
					w("			checkFailure(%q, err)", what)
					w("		}")
				}
			}
			w("	}")
		}
	}
	for si, s := range f.Services {
		g := GoCamelCase(s.Name)
		w("	{")
		w("		cli := NewDRPC%sClient(conn)", g)
		w("		_ = cli")
		for mi, m := range s.Methods {
			mg := GoCamelCase(m.Name)
			tag := fmt.Sprintf("%d.%d:", si, mi)
			want := "/" + f.Package + "." + s.Name + "/" + m.Name
			w("		conn.rpcs = nil")
			switch {
			case !m.CS && !m.SS:
				if f.kind(m.In) == 0 {
					w("		{")
					w("			_, _ = cli.%s(context.Background(), &In{S: \"\\xff\"})", mg)
					w("			conn.rpcs = nil")
					w("		}")
				}
				w("		{")
				w("			out, err := cli.%s(callCtx(), %s)", mg, mk(m.In, `[]byte("ping")`))
				w("			if err != nil { t.Fatalf(\"%s.%s: %%v\", err) }", g, mg)
				w("			if !bytes.Equal(%s, []byte(%q)) { t.Fatalf(\"%s.%s wrong response %%q\", %s) }", get(m.Out, "out"), tag+"ping", g, mg, get(m.Out, "out"))
				w("		}")
			case !m.CS && m.SS:
				if f.kind(m.In) == 0 {
					// a request the encoding refuses: the stub fails, and the call that follows must still go through
					w("		{")
					w("			if st, err := cli.%s(context.Background(), &In{S: \"\\xff\"}); err == nil { _ = st.Close() }", mg)
					w("			conn.rpcs = nil")
					w("		}")
				}
				w("		{")
				w("			st, err := cli.%s(callCtx(), %s)", mg, mk(m.In, `[]byte("ping")`))
				w("			if err != nil { t.Fatalf(\"%s.%s: %%v\", err) }", g, mg)
				w("			checkGetStream(t, st)")
				w("			for i := 0; i < 2; i++ {")
				w("				out, err := st.Recv()")
				w("				if err != nil || !bytes.Equal(%s, []byte(%q)) { t.Fatalf(\"%s.%s recv %%v\", err) }", get(m.Out, "out"), tag+"ping", g, mg)
				w("			}")
				w("			if _, err := st.Recv(); !errors.Is(err, io.EOF) { t.Fatalf(\"%s.%s want EOF got %%v\", err) }", g, mg)
				w("			_ = st.Close()")
				w("		}")
				// the generated RecvMsg receives into a message the caller supplies, and callers reuse it: each receive
				// must leave exactly the message that was sent, also when a field set by the previous one is absent now
				w("		{")
				w("			st, err := cli.%s(callCtx(), %s)", mg, mk(m.In, `[]byte("reuse")`))
				w("			if err != nil { t.Fatalf(\"%s.%s: %%v\", err) }", g, mg)
				w("			out := new(%s)", goType(m.Out))
				w("			rm, ok := st.(interface{ RecvMsg(*%s) error })", goType(m.Out))
				w("			if ok {") // (RecvMsg is a method of the generated implementation, not of the interface: absent = nothing to check)
				w("			if err := rm.RecvMsg(out); err != nil || !bytes.Equal(%s, []byte(\"first\")) { t.Fatalf(\"%s.%s RecvMsg %%v %%q\", err, %s) }", get(m.Out, "out"), g, mg, get(m.Out, "out"))
				w("			if err := rm.RecvMsg(out); err != nil || len(%s) != 0 { t.Fatalf(\"%s.%s: RecvMsg into a reused message: the server sent an empty value, the client has %%q (err %%v)\", %s, err) }", get(m.Out, "out"), g, mg, get(m.Out, "out"))
				w("			}")
				w("			_ = st.Close()")
				w("			conn.rpcs = conn.rpcs[:1]")
				w("		}")
			case m.CS && !m.SS:
				w("		{")
				w("			st, err := cli.%s(ctx)", mg)
				w("			if err != nil { t.Fatalf(\"%s.%s: %%v\", err) }", g, mg)
				w("			checkGetStream(t, st)")
				w("			for _, p := range []string{\"a\", \"bc\"} { if err := st.Send(%s); err != nil { t.Fatalf(\"send %%v\", err) } }", mk(m.In, "[]byte(p)"))
				w("			out, err := st.CloseAndRecv()")
				w("			if err != nil || !bytes.Equal(%s, []byte(%q)) { t.Fatalf(\"%s.%s closeandrecv %%v\", err) }", get(m.Out, "out"), tag+"abc", g, mg)
				w("			_ = st.Close()")
				w("		}")
			default:
				w("		{")
				w("			st, err := cli.%s(ctx)", mg)
				w("			if err != nil { t.Fatalf(\"%s.%s: %%v\", err) }", g, mg)
				w("			checkGetStream(t, st)")
				w("			for _, p := range []string{\"x\", \"yz\"} {")
				w("				if err := st.Send(%s); err != nil { t.Fatalf(\"send %%v\", err) }", mk(m.In, "[]byte(p)"))
				w("				out, err := st.Recv()")
				w("				if err != nil || !bytes.Equal(%s, append([]byte(%q), p...)) { t.Fatalf(\"%s.%s echo %%v\", err) }", get(m.Out, "out"), tag, g, mg)
				w("			}")
				w("			if err := st.CloseSend(); err != nil { t.Fatalf(\"closesend %%v\", err) }")
				w("			if _, err := st.Recv(); !errors.Is(err, io.EOF) { t.Fatalf(\"%s.%s want EOF got %%v\", err) }", g, mg)
				w("			_ = st.Close()")
				w("		}")
			}
			w("		if len(conn.rpcs) != 1 || conn.rpcs[0] != %q { t.Fatalf(\"client stub used rpc names %%q, want %%q\", conn.rpcs, %q) }", want, want)
		}
		w("	}")
	}
	if ep != nil {
		// a server that does not know the service (version skew): the dispatcher fails every call as soon as it has
		// the invoke, possibly while the client is still writing a long request. Whatever the shape, the caller of the
		// generated client must get to see that error.
		w("	{")
		w("		d1, d2 := net.Pipe()")
		w("		go drpcserver.New(drpcmux.New()).ServeOne(ctx, d2)")
		w("		conn2 := drpcconn.New(d1)")
		w("		defer conn2.Close()")
		w("		big := bytes.Repeat([]byte{'b'}, %d)", ep.Big)
		w("		checkUnknown := func(what, rpc string, err error) {")
		w("			t.Helper()")
		w("			want := drpcmux.New().HandleRPC(nil, rpc)")
		w("			if err == nil { t.Fatalf(\"C10: %%s on a server without the service: no error\", what) }")
		w("			if err.Error() != want.Error() || drpcerr.Code(err) != drpcerr.Code(want) { t.Fatalf(\"C10: %%s on a server without the service (request of %%d bytes): the generated client reports %%q code %%d, the dispatcher failed the call with %%q\", what, len(big), err.Error(), drpcerr.Code(err), want.Error()) }")
		w("		}")
		for round := 0; round < 2; round++ {
			for _, s := range f.Services {
				g := GoCamelCase(s.Name)
				w("		{")
				w("			cli := NewDRPC%sClient(conn2)", g)
				w("			_ = cli")
				for _, m := range s.Methods {
					mg := GoCamelCase(m.Name)
					what := g + "." + mg
					rpc := "/" + f.Package + "." + s.Name + "/" + m.Name
					switch {
					case !m.CS && !m.SS:
						w("			{")
						w("				_, err := cli.%s(callCtx(), %s)", mg, mk(m.In, "big"))
						w("				checkUnknown(%q, %q, err)", what, rpc)
						w("			}")
					case !m.CS && m.SS:
						w("			{")
						w("				st, err := cli.%s(callCtx(), %s)", mg, mk(m.In, "big"))
						w("				if err == nil { _, err = st.Recv(); _ = st.Close() }")
						w("				checkUnknown(%q, %q, err)", what, rpc)
						w("			}")
					case m.CS && !m.SS:
						w("			{")
						w("				st, err := cli.%s(callCtx())", mg)
						w("				if err != nil { t.Fatalf(\"C10: %s: %%v\", err) }", what)
						w("				_ = st.Send(%s) // may report io.EOF: the reason is what the receive reports", mk(m.In, "big"))
						w("				_, err = st.CloseAndRecv()")
						w("				_ = st.Close()")
						w("				checkUnknown(%q, %q, err)", what, rpc)
						w("			}")
					default:
						w("			{")
						w("				st, err := cli.%s(callCtx())", mg)
						w("				if err != nil { t.Fatalf(\"C10: %s: %%v\", err) }", what)
						w("				_ = st.Send(%s)", mk(m.In, "big"))
						w("				_, err = st.Recv()")
						w("				_ = st.Close()")
						w("				checkUnknown(%q, %q, err)", what, rpc)
						w("			}")
					}
				}
				w("		}")
			}
		}
		w("	}")
	}
	w("}")
	return b.String()
}
