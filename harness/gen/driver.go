package gen

import (
	"fmt"
	"strings"
)

// driver emits the test file that exercises the generated code. Everything in it is derived from
// the spec alone: expected RPC strings, Go names, method signatures, stream type names.
func (f FileSpec) driver(pkgName, caseDir string) string {
	var b strings.Builder
	w := func(format string, a ...any) { fmt.Fprintf(&b, format+"\n", a...) }
	goType := func(i int) string {
		switch f.kind(i) {
		case 1:
			return "Out"
		case 2:
			return "other.Page"
		case 3:
			return "wrapperspb.BytesValue"
		}
		return "In"
	}
	mk := func(i int, expr string) string {
		if f.kind(i) == 3 {
			return "&wrapperspb.BytesValue{Value: " + expr + "}"
		}
		return "&" + goType(i) + "{V: " + expr + "}"
	}
	get := func(i int, expr string) string {
		if f.kind(i) == 3 {
			return expr + ".GetValue()"
		}
		return expr + ".GetV()"
	}
	usesOther, usesWk := false, false
	for _, s := range f.Services {
		for _, m := range s.Methods {
			for _, i := range []int{f.kind(m.In), f.kind(m.Out)} {
				usesOther = usesOther || i == 2
				usesWk = usesWk || i == 3
			}
		}
	}
	w("package %s", pkgName)
	w("import (")
	w(`	"bytes"`)
	w(`	"context"`)
	w(`	"errors"`)
	w(`	"io"`)
	w(`	"net"`)
	w(`	"testing"`)
	w(`	"time"`)
	w(`	"storj.io/drpc"`)
	w(`	"storj.io/drpc/drpcconn"`)
	w(`	"storj.io/drpc/drpcmux"`)
	w(`	"storj.io/drpc/drpcserver"`)
	if usesOther {
		w(`	other "verifgen/cases/%s/%s"`, caseDir, f.otherPkg())
	}
	if usesWk {
		w(`	"google.golang.org/protobuf/types/known/wrapperspb"`)
	}
	w(")")
	w("var _ = errors.New")
	w("var _ = io.EOF")
	w("var _ = bytes.Equal")
	// a recording connection: which RPC names does the client stub use?
	w("type recConn struct { drpc.Conn; rpcs []string }")
	w("func (r *recConn) Invoke(ctx context.Context, rpc string, enc drpc.Encoding, in, out drpc.Message) error { r.rpcs = append(r.rpcs, rpc); return r.Conn.Invoke(ctx, rpc, enc, in, out) }")
	w("func (r *recConn) NewStream(ctx context.Context, rpc string, enc drpc.Encoding) (drpc.Stream, error) { r.rpcs = append(r.rpcs, rpc); return r.Conn.NewStream(ctx, rpc, enc) }")
	for si, s := range f.Services {
		g := GoCamelCase(s.Name)
		w("type impl%d struct{}", si)
		for mi, m := range s.Methods {
			mg := GoCamelCase(m.Name)
			streamT := "DRPC" + esc(g) + "_" + esc(mg) + "Stream"
			tag := fmt.Sprintf("%d.%d:", si, mi)
			switch {
			case !m.CS && !m.SS:
				w("func (impl%d) %s(ctx context.Context, in *%s) (*%s, error) {", si, mg, goType(m.In), goType(m.Out))
				w("	return %s, nil", mk(m.Out, `append([]byte("`+tag+`"), `+get(m.In, "in")+`...)`))
				w("}")
			case !m.CS && m.SS:
				w("func (impl%d) %s(in *%s, stream %s) error {", si, mg, goType(m.In), streamT)
				w("	for i := 0; i < 2; i++ {")
				w("		if err := stream.Send(%s); err != nil { return err }", mk(m.Out, `append([]byte("`+tag+`"), `+get(m.In, "in")+`...)`))
				w("	}")
				w("	return nil")
				w("}")
			case m.CS && !m.SS:
				w("func (impl%d) %s(stream %s) error {", si, mg, streamT)
				w("	var all []byte")
				w("	for {")
				w("		in, err := stream.Recv()")
				w("		if errors.Is(err, io.EOF) { break }")
				w("		if err != nil { return err }")
				w("		all = append(all, %s...)", get(m.In, "in"))
				w("	}")
				w("	return stream.SendAndClose(%s)", mk(m.Out, `append([]byte("`+tag+`"), all...)`))
				w("}")
			default:
				w("func (impl%d) %s(stream %s) error {", si, mg, streamT)
				w("	for {")
				w("		in, err := stream.Recv()")
				w("		if errors.Is(err, io.EOF) { return nil }")
				w("		if err != nil { return err }")
				w("		if err := stream.Send(%s); err != nil { return err }", mk(m.Out, `append([]byte("`+tag+`"), `+get(m.In, "in")+`...)`))
				w("	}")
				w("}")
			}
		}
		w("var _ DRPC%sServer = impl%d{}", g, si)
		w("var _ DRPC%sServer = &DRPC%sUnimplementedServer{}", g, g)
	}
	// the generated stream types document GetStream() as the way to the runtime's stream (e.g. for SetManualFlush)
	w("func checkGetStream(t *testing.T, st drpc.Stream) {")
	w("	gs, ok := st.(interface{ GetStream() drpc.Stream })")
	w("	if !ok { t.Fatalf(\"generated stream type has no GetStream\") }")
	w("	if _, ok := gs.GetStream().(interface{ SetManualFlush(bool) }); !ok { t.Fatalf(\"GetStream() does not return the runtime's stream (%%T)\", gs.GetStream()) }")
	w("}")
	w("func TestGenerated(t *testing.T) {")
	w("	mux := drpcmux.New()")
	for si, s := range f.Services {
		g := GoCamelCase(s.Name)
		w("	if err := DRPCRegister%s(mux, impl%d{}); err != nil { t.Fatalf(\"register %s: %%v\", err) }", g, si, g)
		w("	{")
		w("		d := DRPC%sDescription{}", g)
		w("		if d.NumMethods() != %d { t.Fatalf(\"NumMethods of %s = %%d\", d.NumMethods()) }", len(s.Methods), g)
		for mi, m := range s.Methods {
			w("		if rpc, _, _, _, ok := d.Method(%d); !ok || rpc != %q { t.Fatalf(\"description rpc %%q ok=%%v, want %%q\", rpc, ok, %q) }", mi, "/"+f.Package+"."+s.Name+"/"+m.Name, "/"+f.Package+"."+s.Name+"/"+m.Name)
		}
		w("		if _, _, _, _, ok := d.Method(%d); ok { t.Fatalf(\"Method(n) of %s reported ok\") }", len(s.Methods), g)
		w("	}")
	}
	w("	c1, c2 := net.Pipe()")
	w("	ctx, cancel := context.WithCancel(context.Background())")
	w("	defer cancel()")
	w("	srv := drpcserver.New(mux)")
	w("	go srv.ServeOne(ctx, c2)")
	w("	conn := &recConn{Conn: drpcconn.New(c1)}")
	w("	callCtx := func() context.Context { c, cancel := context.WithTimeout(ctx, 15*time.Second); _ = cancel; return c }")
	w("	_ = callCtx")
	w("	defer conn.Close()")
	for si, s := range f.Services {
		g := GoCamelCase(s.Name)
		w("	{")
		w("		cli := NewDRPC%sClient(conn)", g)
		w("		_ = cli")
		for mi, m := range s.Methods {
			mg := GoCamelCase(m.Name)
			tag := fmt.Sprintf("%d.%d:", si, mi)
			want := "/" + f.Package + "." + s.Name + "/" + m.Name
			w("		conn.rpcs = nil")
			switch {
			case !m.CS && !m.SS:
				if f.kind(m.In) == 0 {
					w("		{")
					w("			_, _ = cli.%s(context.Background(), &In{S: \"\\xff\"})", mg)
					w("			conn.rpcs = nil")
					w("		}")
				}
				w("		{")
				w("			out, err := cli.%s(callCtx(), %s)", mg, mk(m.In, `[]byte("ping")`))
				w("			if err != nil { t.Fatalf(\"%s.%s: %%v\", err) }", g, mg)
				w("			if !bytes.Equal(%s, []byte(%q)) { t.Fatalf(\"%s.%s wrong response %%q\", %s) }", get(m.Out, "out"), tag+"ping", g, mg, get(m.Out, "out"))
				w("		}")
			case !m.CS && m.SS:
				if f.kind(m.In) == 0 {
					// a request the encoding refuses: the stub fails, and the call that follows must still go through
					w("		{")
					w("			if st, err := cli.%s(context.Background(), &In{S: \"\\xff\"}); err == nil { _ = st.Close() }", mg)
					w("			conn.rpcs = nil")
					w("		}")
				}
				w("		{")
				w("			st, err := cli.%s(callCtx(), %s)", mg, mk(m.In, `[]byte("ping")`))
				w("			if err != nil { t.Fatalf(\"%s.%s: %%v\", err) }", g, mg)
				w("			checkGetStream(t, st)")
				w("			for i := 0; i < 2; i++ {")
				w("				out, err := st.Recv()")
				w("				if err != nil || !bytes.Equal(%s, []byte(%q)) { t.Fatalf(\"%s.%s recv %%v\", err) }", get(m.Out, "out"), tag+"ping", g, mg)
				w("			}")
				w("			if _, err := st.Recv(); !errors.Is(err, io.EOF) { t.Fatalf(\"%s.%s want EOF got %%v\", err) }", g, mg)
				w("			_ = st.Close()")
				w("		}")
			case m.CS && !m.SS:
				w("		{")
				w("			st, err := cli.%s(ctx)", mg)
				w("			if err != nil { t.Fatalf(\"%s.%s: %%v\", err) }", g, mg)
				w("			checkGetStream(t, st)")
				w("			for _, p := range []string{\"a\", \"bc\"} { if err := st.Send(%s); err != nil { t.Fatalf(\"send %%v\", err) } }", mk(m.In, "[]byte(p)"))
				w("			out, err := st.CloseAndRecv()")
				w("			if err != nil || !bytes.Equal(%s, []byte(%q)) { t.Fatalf(\"%s.%s closeandrecv %%v\", err) }", get(m.Out, "out"), tag+"abc", g, mg)
				w("			_ = st.Close()")
				w("		}")
			default:
				w("		{")
				w("			st, err := cli.%s(ctx)", mg)
				w("			if err != nil { t.Fatalf(\"%s.%s: %%v\", err) }", g, mg)
				w("			checkGetStream(t, st)")
				w("			for _, p := range []string{\"x\", \"yz\"} {")
				w("				if err := st.Send(%s); err != nil { t.Fatalf(\"send %%v\", err) }", mk(m.In, "[]byte(p)"))
				w("				out, err := st.Recv()")
				w("				if err != nil || !bytes.Equal(%s, append([]byte(%q), p...)) { t.Fatalf(\"%s.%s echo %%v\", err) }", get(m.Out, "out"), tag, g, mg)
				w("			}")
				w("			if err := st.CloseSend(); err != nil { t.Fatalf(\"closesend %%v\", err) }")
				w("			if _, err := st.Recv(); !errors.Is(err, io.EOF) { t.Fatalf(\"%s.%s want EOF got %%v\", err) }", g, mg)
				w("			_ = st.Close()")
				w("		}")
			}
			w("		if len(conn.rpcs) != 1 || conn.rpcs[0] != %q { t.Fatalf(\"client stub used rpc names %%q, want %%q\", conn.rpcs, %q) }", want, want)
		}
		w("	}")
	}
	w("}")
	return b.String()
}
