// Package gen checks the code generator (C17): for generated service descriptors the plugin's
// output must type-check against the runtime, register, and round-trip every method.
package gen

import (
	"fmt"
	"strings"
)

// MethodSpec / ServiceSpec / FileSpec describe one generated .proto file.
type MethodSpec struct {
	Name   string
	CS, SS bool // client streaming, server streaming
	In     int  // message type index: 0 local In, 1 local Out, 2 other-package Page, 3 google.protobuf.BytesValue
	Out    int
}

type ServiceSpec struct {
	Name    string
	Methods []MethodSpec
}

type FileSpec struct {
	Package  string
	Alias    bool // go_package with ";alias"
	Services []ServiceSpec
	Protolib string // "", "custom"
	JSON     bool
}

// GoCamelCase is the Go protobuf naming rule (protobuf-go internal/strs.GoCamelCase): what every
// user of generated Go protobuf code has to apply to service and method names.
func GoCamelCase(s string) string {
	isLower := func(c byte) bool { return 'a' <= c && c <= 'z' }
	isDigit := func(c byte) bool { return '0' <= c && c <= '9' }
	var b []byte
	for i := 0; i < len(s); i++ {
		c := s[i]
		switch {
		case c == '.' && i+1 < len(s) && isLower(s[i+1]):
		case c == '.':
			b = append(b, '_')
		case c == '_' && (i == 0 || s[i-1] == '.'):
			b = append(b, 'X')
		case c == '_' && i+1 < len(s) && isLower(s[i+1]):
		case isDigit(c):
			b = append(b, c)
		default:
			if isLower(c) {
				c -= 'a' - 'A'
			}
			b = append(b, c)
			for ; i+1 < len(s) && isLower(s[i+1]); i++ {
				b = append(b, s[i+1])
			}
		}
	}
	return string(b)
}

func esc(s string) string { return strings.ReplaceAll(s, "_", "__") }

// generatedNames lists the top-level identifiers the plugin's naming scheme produces for the
// file; a duplicate means the plugin's own scheme collides (known finding F12).
func (f FileSpec) generatedNames() (names []string) {
	for _, s := range f.Services {
		g := GoCamelCase(s.Name)
		names = append(names, "DRPC"+g+"Client", "drpc"+g+"Client", "NewDRPC"+g+"Client", "DRPC"+g+"Server", "DRPC"+g+"UnimplementedServer", "DRPC"+g+"Description", "DRPCRegister"+g)
		for _, m := range s.Methods {
			mg := GoCamelCase(m.Name)
			if m.CS || m.SS {
				names = append(names, "DRPC"+esc(g)+"_"+esc(mg)+"Client", "drpc"+esc(g)+"_"+esc(mg)+"Client")
			}
			names = append(names, "DRPC"+esc(g)+"_"+esc(mg)+"Stream", "drpc"+esc(g)+"_"+esc(mg)+"Stream")
		}
	}
	return
}

func (f FileSpec) schemeCollision() bool {
	seen := map[string]bool{}
	for _, n := range f.generatedNames() {
		if seen[n] {
			return true
		}
		seen[n] = true
	}
	return false
}

// wellFormed: names that Go protobuf itself maps to distinct, valid identifiers.
func (f FileSpec) wellFormed() bool {
	svc := map[string]bool{}
	for _, s := range f.Services {
		g := GoCamelCase(s.Name)
		if g == "" || svc[g] || g == "In" || g == "Out" {
			return false
		}
		svc[g] = true
		ms := map[string]bool{}
		names := map[string]bool{}
		for _, m := range s.Methods {
			mg := GoCamelCase(m.Name)
			if mg == "" || ms[mg] || names[m.Name] || mg == "DRPCConn" {
				return false
			}
			ms[mg], names[m.Name] = true, true
		}
	}
	return true
}

func (f FileSpec) String() string {
	var sb strings.Builder
	fmt.Fprintf(&sb, "package %s alias=%v protolib=%q json=%v;", f.Package, f.Alias, f.Protolib, f.JSON)
	for _, s := range f.Services {
		fmt.Fprintf(&sb, " service %s {", s.Name)
		for _, m := range s.Methods {
			fmt.Fprintf(&sb, " %s(cs=%v,ss=%v,in=%d,out=%d)", m.Name, m.CS, m.SS, m.In, m.Out)
		}
		sb.WriteString(" }")
	}
	return sb.String()
}
