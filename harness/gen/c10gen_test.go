package gen

import (
	"strings"
	"testing"

	"pgregory.net/rapid"

	"verif/gens"
	"verif/pbt"
)

// C10 through generated code. The connection-level checks of C10 drive drpcconn directly; what an application calls
// is the generated client, whose stubs compose NewStream / MsgSend / CloseSend / MsgRecv themselves (the unary stub
// goes through Conn.Invoke). For a drawn service the driver fails every method in its handler (message, code, after k
// responses) and, on a second connection, calls every method of a server that does not know the service with a request
// of a drawn size (the dispatcher fails such a call as soon as it has the invoke, possibly while the client still
// writes). Oracle: the caller of the generated client gets an error with exactly the handler's / dispatcher's text and
// code, responses sent before the failure arrive first, and the round trip of every method still works afterwards.

func genErrPathSpec(t *rapid.T) FileSpec {
	f := FileSpec{
		Package:  rapid.SampledFrom([]string{"p", "a.b_c.d"}).Draw(t, "package"),
		Protolib: rapid.SampledFrom([]string{"", "", "custom", "gogo"}).Draw(t, "protolib"),
		JSON:     rapid.Bool().Draw(t, "json"),
	}
	methGen := rapid.Custom(func(t *rapid.T) MethodSpec {
		return MethodSpec{Name: rapid.SampledFrom(nameAlphabet).Draw(t, "meth"), CS: rapid.Bool().Draw(t, "cs"), SS: rapid.Bool().Draw(t, "ss"),
			In: rapid.SampledFrom([]int{0, 0, 1, 3}).Draw(t, "in"), Out: rapid.SampledFrom([]int{1, 1, 0, 3}).Draw(t, "out")}
	})
	f.Services = rapid.SliceOfNDistinct(rapid.Custom(func(t *rapid.T) ServiceSpec {
		s := ServiceSpec{Name: rapid.SampledFrom(nameAlphabet).Draw(t, "svc")}
		s.Methods = rapid.SliceOfNDistinct(methGen, 1, 5, func(m MethodSpec) string { return GoCamelCase(m.Name) }).Draw(t, "methods")
		return s
	}), 1, 2, func(s ServiceSpec) string { return GoCamelCase(s.Name) }).Draw(t, "services")
	ep := &ErrPath{Msg: gens.GenMsg(3000).Draw(t, "msg"), After: rapid.IntRange(0, 3).Draw(t, "after")}
	if rapid.IntRange(0, 3).Draw(t, "hascode") > 0 {
		ep.Code = rapid.OneOf(rapid.SampledFrom([]uint64{0, 1, 2, 1<<32 - 1, 1 << 32, 1<<63 - 1, 1 << 63, 1<<64 - 1}), rapid.Uint64()).Draw(t, "code")
	}
	ep.Big = rapid.SampledFrom([]int{0, 100, 5000, 70000, 300000, 2 << 20}).Draw(t, "big")
	f.ErrPath = ep
	return f
}

func runErrPathSpec(f FileSpec) (r pbt.Result) {
	if !f.wellFormed() {
		r.Label("skipped_go_protobuf_name_clash")
		return
	}
	if f.schemeCollision() {
		r.Label("skipped_generator_name_collision") // F12, decided under C17
		return
	}
	t := setup()
	if t.err != nil {
		panic(inconclusive("toolchain setup: " + t.err.Error()))
	}
	out := generate(t, f)
	switch {
	case out.PluginErr != "" || out.BuildErr != "":
		// whether the generated code builds is C17's question; here it is a harness problem
		panic(inconclusive("generated code for the error-path driver does not build: " + out.PluginErr + out.BuildErr))
	case out.TestErr != "":
		if !strings.Contains(out.Output, "C10:") {
			r.Failf("the generated client and server stopped working after the provoked failures")
		} else {
			r.Failf("the generated client does not hand the failure of the call to its caller with text and code intact")
		}
		r.Detailf("%s\n%s", f, firstLines(out.Output, 30))
		return
	}
	shapes := map[string]bool{}
	for _, s := range f.Services {
		for _, m := range s.Methods {
			switch {
			case !m.CS && !m.SS:
				shapes["unary"] = true
			case !m.CS:
				shapes["server_streaming"] = true
			case !m.SS:
				shapes["client_streaming"] = true
			default:
				shapes["bidirectional"] = true
			}
		}
	}
	for s := range shapes {
		r.Label("shape_" + s)
	}
	if f.ErrPath.Big >= 70000 {
		r.Label("unknown_rpc_with_multi_frame_request")
	}
	if f.ErrPath.Code != 0 {
		r.Label("coded_error")
	}
	if f.ErrPath.After > 0 && (shapes["server_streaming"] || shapes["bidirectional"]) {
		r.Label("responses_before_failure")
	}
	r.NonTrivial = len(shapes) >= 1
	r.Key = f.String()
	r.Sample = f.String()
	return
}

func TestC10Generated(t *testing.T) {
	defer cleanup()
	pbt.Check(t, pbt.Prop[FileSpec]{ID: "C10", Name: "generated_stubs", Gen: genErrPathSpec, Run: runErrPathSpec})
}
