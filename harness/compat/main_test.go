package compat

import (
	"testing"

	"verif/pbt"
)

func TestMain(m *testing.M) { pbt.Main(m) }
