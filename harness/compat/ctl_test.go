package compat

import (
	"context"
	"fmt"
	"testing"

	"pgregory.net/rapid"
	"storj.io/drpc/drpcmanager"
	"storj.io/drpc/drpcserver"

	"verif/pbt"
	"verif/ref"
	"verif/sim"
)

// C18, last sentence: "Packets with the control bit that an endpoint does not understand are ignored
// without disturbing the stream." Metamorphic check against the current server: a wire-level client plays
// the same RPC script twice, once plainly and once with unknown-kind control packets inserted at drawn
// places (before the metadata, between metadata and invoke, between messages, after the half-close,
// addressed to the running stream, to the one that just ended, or to the one about to start). What the
// server writes must be the same packets both times, it must still be serving at the end, and a final
// call by a real client... is replaced by a final scripted call whose echo must arrive.

type ctlRPC struct {
	Meta  bool
	Unary bool
	NMsgs int
	Size  int
	// Ctl[i] > 0: an unknown control packet is inserted before the i-th packet of the call (the slot after
	// the last packet is index len(packets)); the value selects kind and addressing.
	Ctl []int
	// PumpEach: the transport is drained after every packet instead of after the whole call.
	PumpEach bool
}

type ctlCase struct {
	Soft   bool
	RPCs   []ctlRPC
	Chunks []int
}

var unknownKinds = []uint8{8, 9, 13, 31, 33, 62, 63}

// play runs the script and returns the packets the server wrote and whether it is still serving.
func playCtl(c ctlCase, withCtl bool) (pkts []simplePkt, alive bool, stuck string, inserted int) {
	var clock int64
	a, b := sim.Pipe(&clock)
	ctx, cancel := context.WithCancel(context.Background())
	defer cancel()
	srvDone := make(chan struct{})
	srv := drpcserver.NewWithOptions(newEcho{}, drpcserver.Options{Manager: drpcmanager.Options{SoftCancel: c.Soft}})
	go func() { defer close(srvDone); _ = srv.ServeOne(ctx, b) }()
	ahead := 0
	_ = ahead
	ci := 0
	chunk := func() int {
		if len(c.Chunks) == 0 {
			return 0
		}
		ci++
		return c.Chunks[ci%len(c.Chunks)]
	}
	pump := func() {
		for i := 0; i < 400000; i++ {
			sim.WaitQuiescent()
			moved := false
			for _, e := range []*sim.End{a, b} {
				if e.Out().CanAccept() {
					e.Out().Accept(chunk())
					moved = true
				}
				if e.Out().CanDeliver() {
					e.Out().Deliver(chunk())
					moved = true
				}
			}
			if !moved {
				return
			}
		}
	}
	defer func() {
		cancel()
		pump()
		if a.Closes() == 0 {
			a.Fail(false)
		}
		if b.Closes() == 0 {
			b.Fail(false)
		}
		pump()
	}()
	nextMid := uint64(0) // message ids already used on the coming stream (by a control packet addressed ahead)
	for k, rp := range c.RPCs {
		sid := uint64(k + 1)
		mid := nextMid
		nextMid = 0
		type pk struct {
			kind uint8
			data []byte
		}
		var script []pk
		if rp.Meta {
			script = append(script, pk{7, ref.EncodeMetadataProto([]ref.Pair{{Key: "k", Value: fmt.Sprint(k)}})})
		}
		name := "stream"
		n := rp.NMsgs
		if rp.Unary {
			name, n = "unary", 1
		}
		script = append(script, pk{1, []byte(name)})
		for i := 0; i < n; i++ {
			script = append(script, pk{2, payload(k*10+i, rp.Size)})
		}
		script = append(script, pk{6, nil})
		emitCtl := func(sel int) {
			if !withCtl || sel <= 0 {
				return
			}
			inserted++
			kind := unknownKinds[sel%len(unknownKinds)]
			// addressing: the running stream (ids continue), or the stream that ended before it (only
			// possible ahead of the call's first packet), always respecting id monotonicity
			mid++
			fr := ref.Frame{Stream: sid, Message: mid, Kind: kind, Control: true, Done: true, Data: payload(sel, sel%5)}
			if sel%3 == 0 {
				// two frames
				first := fr
				first.Done, first.Data = false, []byte("x")
				a.Out().Inject(ref.AppendFrame(nil, first))
			}
			a.Out().Inject(ref.AppendFrame(nil, fr))
			if rp.PumpEach {
				pump()
			}
		}
		for i, p := range script {
			if i < len(rp.Ctl) {
				emitCtl(rp.Ctl[i])
			}
			mid++
			a.Out().Inject(ref.AppendFrame(nil, ref.Frame{Stream: sid, Message: mid, Kind: p.kind, Done: true, Data: p.data}))
			if rp.PumpEach {
				pump()
			}
		}
		if len(script) < len(rp.Ctl) {
			if sel := rp.Ctl[len(script)]; withCtl && sel > 0 && sel%2 == 1 {
				// after the call's last packet, addressed to the stream that has not been invoked yet: it is for
				// nobody, and in particular not for the call that may still be answering
				inserted++
				nextMid = 1
				fr := ref.Frame{Stream: sid + 1, Message: 1, Kind: unknownKinds[sel%len(unknownKinds)], Control: true, Done: true, Data: payload(sel, sel%5)}
				a.Out().Inject(ref.AppendFrame(nil, fr))
				ahead++
			} else if !withCtl && sel > 0 && sel%2 == 1 {
				nextMid = 1 // keep the ids of the real packets identical in both runs
			} else {
				emitCtl(sel)
			}
		}
		pump()
	}
	select {
	case <-srvDone:
	default:
		alive = true
	}
	out, _, err := readNewAll(b.Out().AcceptedBytes(), 0)
	if err != nil {
		stuck = "server output does not parse: " + err.Error()
	}
	return out, alive, stuck, inserted
}

func runCtlAnywhere(c ctlCase) (r pbt.Result) {
	plain, alive1, s1, _ := playCtl(c, false)
	with, alive2, s2, inserted := playCtl(c, true)
	detail := func() {
		r.Detailf("case=%+v\nplain (%d packets): %v\nwith control packets (%d): %v", c, len(plain), brief(plain), len(with), brief(with))
	}
	if s1 != "" || s2 != "" {
		r.Failf("the server's output is not a valid frame stream")
		r.Detailf("%s %s", s1, s2)
		return
	}
	if !alive1 {
		r.Failf("harness: the plain script made the server stop")
		detail()
		return
	}
	// every call of the plain script is answered: one echo per message and the end of the stream
	wantEcho := 0
	for _, rp := range c.RPCs {
		if rp.Unary {
			wantEcho++
		} else {
			wantEcho += rp.NMsgs
		}
	}
	gotEcho := 0
	for _, p := range plain {
		if p.Kind == 2 {
			gotEcho++
		}
	}
	if gotEcho != wantEcho {
		r.Failf("harness: the plain script was not fully answered")
		detail()
		return
	}
	if !alive2 {
		r.Failf("an unknown control packet made the server drop the connection")
		detail()
		return
	}
	if !samePkts(plain, with) {
		r.Failf("unknown control packets changed what the server answered")
		detail()
		return
	}
	if inserted > 0 {
		r.Label("control_packets_inserted")
	}
	for _, rp := range c.RPCs {
		if rp.Meta && len(rp.Ctl) > 1 && rp.Ctl[1] > 0 {
			r.Label("between_metadata_and_invoke")
		}
		if len(rp.Ctl) > 0 && rp.Ctl[0] > 0 {
			r.Label("ahead_of_the_call")
		}
	}
	r.NonTrivial = inserted > 0
	r.Key = fmt.Sprintf("%+v", c)
	r.Sample = map[string]any{"case": c, "server_packets": len(plain), "control_packets_inserted": inserted}
	return
}

func brief(ps []simplePkt) (out []string) {
	for _, p := range ps {
		out = append(out, fmt.Sprintf("s%d/m%d/k%d/%dB", p.Stream, p.Message, p.Kind, len(p.Data)))
	}
	return out
}

func TestC18ControlAnywhere(t *testing.T) {
	gen := func(t *rapid.T) ctlCase {
		c := ctlCase{Soft: rapid.Bool().Draw(t, "soft")}
		c.RPCs = rapid.SliceOfN(rapid.Custom(func(t *rapid.T) ctlRPC {
			rp := ctlRPC{Meta: rapid.Bool().Draw(t, "meta"), Unary: rapid.Bool().Draw(t, "unary"), NMsgs: rapid.IntRange(0, 3).Draw(t, "n"),
				Size: rapid.SampledFrom([]int{0, 1, 100, 3000}).Draw(t, "size"), PumpEach: rapid.Bool().Draw(t, "pumpeach")}
			rp.Ctl = rapid.SliceOfN(rapid.SampledFrom([]int{0, 0, 1, 2, 3, 4, 5, 6, 7, 9}), 0, 7).Draw(t, "ctl")
			return rp
		}), 1, 3).Draw(t, "rpcs")
		c.Chunks = rapid.SliceOfN(rapid.SampledFrom([]int{0, 0, 1, 7, 100, 4096}), 0, 4).Draw(t, "chunks")
		return c
	}
	pbt.Check(t, pbt.Prop[ctlCase]{ID: "C18", Name: "control_anywhere", Gen: gen, Run: runCtlAnywhere})
}

