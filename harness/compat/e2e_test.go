package compat

import (
	"bytes"
	"context"
	"errors"
	"fmt"
	"io"
	"testing"

	"pgregory.net/rapid"
	"storj.io/drpc"
	"storj.io/drpc/drpcconn"
	"storj.io/drpc/drpcmanager"
	"storj.io/drpc/drpcserver"

	old "verif/old/drpc"
	oldconn "verif/old/drpc/drpcconn"
	oldmanager "verif/old/drpc/drpcmanager"
	oldserver "verif/old/drpc/drpcserver"
	"verif/pbt"
	"verif/ref"
	"verif/sim"
)

// rawMsg is a message both protobuf runtimes accept: it marshals to its own bytes.
type rawMsg struct{ B []byte }

func (m *rawMsg) Reset()                   { m.B = nil }
func (m *rawMsg) String() string           { return fmt.Sprintf("%x", m.B) }
func (m *rawMsg) ProtoMessage()            {}
func (m *rawMsg) Marshal() ([]byte, error) { return m.B, nil }
func (m *rawMsg) Unmarshal(b []byte) error { m.B = append([]byte(nil), b...); return nil }

type oldEcho struct{}

func (oldEcho) HandleRPC(stream old.Stream, rpc string) error {
	for {
		var m rawMsg
		if err := stream.MsgRecv(&m); err != nil {
			if errors.Is(err, io.EOF) {
				return nil
			}
			return err
		}
		if err := stream.MsgSend(&m); err != nil {
			return err
		}
		if rpc == "unary" {
			return nil
		}
	}
}

type newEcho struct{}

func (newEcho) HandleRPC(stream drpc.Stream, rpc string) error {
	for {
		var b []byte
		if err := stream.MsgRecv(&b, sim.RawEnc{}); err != nil {
			if errors.Is(err, io.EOF) {
				return nil
			}
			return err
		}
		if err := stream.MsgSend(&b, sim.RawEnc{}); err != nil {
			return err
		}
		if rpc == "unary" {
			return nil
		}
	}
}

type e2eRPC struct {
	Unary       bool
	NMsgs       int
	Size        int
	CancelAfter int  // stream only: cancel the call's context after this many echoes (-1: never)
	CtlAfter    bool // inject an unknown-kind control packet for this stream id once the RPC is over
}

type e2eCase struct {
	NewIsClient bool
	Soft        bool
	RPCs        []e2eRPC
	Chunks      []int
}

func runE2E(c e2eCase) (r pbt.Result) {
	var clock int64
	a, b := sim.Pipe(&clock)
	ctxS, cancelS := context.WithCancel(context.Background())
	defer cancelS()
	srvDone := make(chan struct{})
	var newConn *drpcconn.Conn
	var oldConn *oldconn.Conn
	if c.NewIsClient {
		srv := oldserver.NewWithOptions(oldEcho{}, oldserver.Options{Manager: oldmanager.Options{InactivityTimeout: -1}})
		go func() { defer close(srvDone); _ = srv.ServeOne(ctxS, b) }()
		newConn = drpcconn.NewWithOptions(a, drpcconn.Options{Manager: drpcmanager.Options{SoftCancel: c.Soft}})
	} else {
		srv := drpcserver.NewWithOptions(newEcho{}, drpcserver.Options{Manager: drpcmanager.Options{SoftCancel: c.Soft}})
		go func() { defer close(srvDone); _ = srv.ServeOne(ctxS, b) }()
		oldConn = oldconn.New(a)
	}
	ci := 0
	chunk := func() int {
		if len(c.Chunks) == 0 {
			return 0
		}
		ci++
		return c.Chunks[ci%len(c.Chunks)]
	}
	pump := func() {
		for i := 0; i < 400000; i++ {
			sim.WaitQuiescent()
			moved := false
			for _, e := range []*sim.End{a, b} {
				if e.Out().CanAccept() {
					e.Out().Accept(chunk())
					moved = true
				}
				if e.Out().CanDeliver() {
					e.Out().Deliver(chunk())
					moved = true
				}
			}
			if !moved {
				return
			}
		}
	}
	fail := func(f string, args ...any) {
		r.Fail = fmt.Sprintf(f, args...)
		var det bytes.Buffer
		fmt.Fprintf(&det, "case=%+v\n", c)
		for _, g := range sim.Snapshot()[1:] {
			det.WriteString(g.Frames + "\n\n")
		}
		r.Detail = det.String()
	}
	closedByCancel := false
	softCancelled, ctlInjected := false, false
	for k, rp := range c.RPCs {
		if closedByCancel {
			break
		}
		ctx, cancel := context.WithCancel(context.Background())
		done := make(chan error, 1)
		var echoes int
		mk := func(i int) []byte { return payload(k*10+i, rp.Size) }
		go func() {
			if c.NewIsClient {
				if rp.Unary {
					in, out := mk(0), []byte(nil)
					err := newConn.Invoke(ctx, "unary", sim.RawEnc{}, &in, &out)
					if err == nil && !bytes.Equal(in, out) {
						err = errors.New("echo mismatch")
					}
					if err == nil {
						echoes++
					}
					done <- err
					return
				}
				st, err := newConn.NewStream(ctx, "stream", sim.RawEnc{})
				if err != nil {
					done <- err
					return
				}
				for i := 0; i < rp.NMsgs; i++ {
					in, out := mk(i), []byte(nil)
					if err := st.MsgSend(&in, sim.RawEnc{}); err != nil {
						done <- err
						return
					}
					if err := st.MsgRecv(&out, sim.RawEnc{}); err != nil {
						done <- err
						return
					}
					if !bytes.Equal(in, out) {
						done <- errors.New("echo mismatch")
						return
					}
					echoes++
					if rp.CancelAfter == echoes {
						cancel()
						var x []byte
						err := st.MsgRecv(&x, sim.RawEnc{})
						if err == nil {
							done <- errors.New("receive after cancel returned nil")
							return
						}
						done <- nil
						return
					}
				}
				if err := st.CloseSend(); err != nil {
					done <- err
					return
				}
				var x []byte
				if err := st.MsgRecv(&x, sim.RawEnc{}); !errors.Is(err, io.EOF) {
					done <- fmt.Errorf("want EOF after half-close, got %v", err)
					return
				}
				done <- st.Close()
				return
			}
			// v0.0.17 client
			if rp.Unary {
				in, out := &rawMsg{B: mk(0)}, &rawMsg{}
				err := oldConn.Invoke(ctx, "unary", in, out)
				if err == nil && !bytes.Equal(in.B, out.B) {
					err = errors.New("echo mismatch")
				}
				if err == nil {
					echoes++
				}
				done <- err
				return
			}
			st, err := oldConn.NewStream(ctx, "stream")
			if err != nil {
				done <- err
				return
			}
			for i := 0; i < rp.NMsgs; i++ {
				in, out := &rawMsg{B: mk(i)}, &rawMsg{}
				if err := st.MsgSend(in); err != nil {
					done <- err
					return
				}
				if err := st.MsgRecv(out); err != nil {
					done <- err
					return
				}
				if !bytes.Equal(in.B, out.B) {
					done <- errors.New("echo mismatch")
					return
				}
				echoes++
			}
			if err := st.CloseSend(); err != nil {
				done <- err
				return
			}
			var x rawMsg
			if err := st.MsgRecv(&x); !errors.Is(err, io.EOF) {
				done <- fmt.Errorf("want EOF after half-close, got %v", err)
				return
			}
			done <- st.Close()
		}()
		pump()
		var err error
		select {
		case err = <-done:
		default:
			fail("an RPC between a v0.0.17 endpoint and the current one did not complete")
			r.Detailf("rpc %d", k)
			cancel()
			return
		}
		cancel()
		pump()
		if err != nil {
			fail("an RPC between a v0.0.17 endpoint and the current one failed")
			r.Detailf("rpc %d: %v", k, err)
			return
		}
		if !rp.Unary && rp.CancelAfter > 0 && rp.CancelAfter <= rp.NMsgs && c.NewIsClient {
			if c.Soft {
				softCancelled = true
				// the v0.0.17 reader skips the cancel packet by design, so its handler keeps running: the stream
				// must be undisturbed (connection alive, server still serving); nothing more can be asked of it.
				select {
				case <-srvDone:
					fail("a control packet the v0.0.17 endpoint does not understand disturbed its connection")
					return
				default:
				}
				closedByCancel = true
			} else {
				closedByCancel = true // the default cancel mode closes the transport: nothing more to check
			}
		}
		if rp.CtlAfter && !closedByCancel {
			// an unknown control packet addressed to the stream that just ended, with a message id far above anything used
			fr := ref.AppendFrame(nil, ref.Frame{Stream: uint64(k + 1), Message: 1 << 40, Kind: 33, Control: true, Done: true, Data: []byte("future")})
			a.Out().Inject(fr)
			ctlInjected = true
			pump()
		}
	}
	if softCancelled {
		r.Label("soft_cancel_ignored_by_old_peer")
	}
	if ctlInjected {
		r.Label("unknown_control_packet_injected")
	}
	if c.NewIsClient {
		r.Label("new_client_old_server")
	} else {
		r.Label("old_client_new_server")
	}
	r.NonTrivial = len(c.RPCs) >= 2 || softCancelled || ctlInjected
	r.Key = fmt.Sprintf("%+v", c)
	// teardown
	if newConn != nil {
		go newConn.Close()
	}
	if oldConn != nil {
		go oldConn.Close()
	}
	cancelS()
	pump()
	if a.Closes() == 0 {
		a.Fail(false)
	}
	if b.Closes() == 0 {
		b.Fail(false)
	}
	pump()
	return
}

func TestC18EndToEnd(t *testing.T) {
	gen := func(t *rapid.T) e2eCase {
		c := e2eCase{NewIsClient: rapid.Bool().Draw(t, "newclient"), Soft: rapid.Bool().Draw(t, "soft")}
		c.RPCs = rapid.SliceOfN(rapid.Custom(func(t *rapid.T) e2eRPC {
			rp := e2eRPC{Unary: rapid.Bool().Draw(t, "unary"), NMsgs: rapid.IntRange(0, 4).Draw(t, "n"), Size: rapid.SampledFrom([]int{0, 1, 100, 2000, 70000}).Draw(t, "size"), CancelAfter: -1}
			if !rp.Unary && rapid.IntRange(0, 2).Draw(t, "cancel") == 0 {
				rp.CancelAfter = rapid.IntRange(1, 4).Draw(t, "cancelafter")
			}
			rp.CtlAfter = rapid.IntRange(0, 3).Draw(t, "ctl") == 0
			return rp
		}), 1, 4).Draw(t, "rpcs")
		c.Chunks = rapid.SliceOfN(rapid.SampledFrom([]int{0, 0, 1, 7, 100, 4096}), 0, 6).Draw(t, "chunks")
		big := false
		for _, rp := range c.RPCs {
			big = big || rp.Size > 2000
		}
		if big { // byte-wise delivery of 70 KB messages only costs time
			for i, ch := range c.Chunks {
				if ch > 0 && ch < 100 {
					c.Chunks[i] = 4096
				}
			}
		}
		return c
	}
	pbt.Check(t, pbt.Prop[e2eCase]{ID: "C18", Name: "end_to_end", Gen: gen, Run: runE2E})
}
