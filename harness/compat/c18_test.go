// Package compat checks wire compatibility with the released v0.0.17 (C18). verif/old/drpc is a
// verbatim copy of storj.io/drpc@v0.0.17 from the module cache with only the import path renamed.
package compat

import (
	"bytes"
	"context"
	"fmt"
	"io"
	"testing"
	"unicode/utf8"

	"pgregory.net/rapid"
	"storj.io/drpc/drpcmetadata"
	"storj.io/drpc/drpcwire"

	oldmeta "verif/old/drpc/drpcmetadata"
	oldwire "verif/old/drpc/drpcwire"
	"verif/pbt"
)

type pktSpec struct {
	Kind    uint8
	Size    int
	Control bool
	Split   int // frames of at most this many bytes (0: default 64 KiB, -1: one frame)
	Stream  int // stream id increment before this packet (0 = same stream)
}

type wireCase struct {
	Packets   []pktSpec
	WriterBuf int
	Chunk     int // read chunk size for the readers (0 = all at once)
}

type simplePkt struct {
	Stream, Message uint64
	Kind            uint8
	Data            []byte
}

func payload(i, n int) []byte {
	b := make([]byte, n)
	for j := range b {
		b[j] = byte(i*31 + j*7 + j>>8)
	}
	return b
}

type chunked struct {
	b []byte
	n int
}

func (c *chunked) Read(p []byte) (int, error) {
	if len(c.b) == 0 {
		return 0, io.EOF
	}
	n := len(c.b)
	if c.n > 0 && c.n < n {
		n = c.n
	}
	if n > len(p) {
		n = len(p)
	}
	copy(p, c.b[:n])
	c.b = c.b[n:]
	return n, nil
}

func readNew(b []byte, chunk int) (out []simplePkt, ctl int, err error) {
	out, ctlPkts, err := readNewAll(b, chunk)
	return out, len(ctlPkts), err
}

func readNewAll(b []byte, chunk int) (out, ctlPkts []simplePkt, err error) {
	rd := drpcwire.NewReader(&chunked{b: b, n: chunk})
	for {
		p, e := rd.ReadPacket()
		if e != nil {
			if e == io.EOF {
				return out, ctlPkts, nil
			}
			return out, ctlPkts, e
		}
		if p.Control {
			ctlPkts = append(ctlPkts, simplePkt{p.ID.Stream, p.ID.Message, uint8(p.Kind), append([]byte(nil), p.Data...)})
			continue
		}
		out = append(out, simplePkt{p.ID.Stream, p.ID.Message, uint8(p.Kind), append([]byte(nil), p.Data...)})
	}
}

func readOld(b []byte, chunk int) (out []simplePkt, err error) {
	rd := oldwire.NewReader(&chunked{b: b, n: chunk})
	for {
		p, e := rd.ReadPacket()
		if e != nil {
			if e == io.EOF {
				return out, nil
			}
			return out, e
		}
		out = append(out, simplePkt{p.ID.Stream, p.ID.Message, uint8(p.Kind), append([]byte(nil), p.Data...)})
	}
}

func samePkts(a, b []simplePkt) bool {
	if len(a) != len(b) {
		return false
	}
	for i := range a {
		if a[i].Stream != b[i].Stream || a[i].Message != b[i].Message || a[i].Kind != b[i].Kind || !bytes.Equal(a[i].Data, b[i].Data) {
			return false
		}
	}
	return true
}

func runWire(c wireCase) (r pbt.Result) {
	// the same packet sequence encoded by the current writer and by the v0.0.17 writer
	var newBuf, oldBuf bytes.Buffer
	nw := drpcwire.NewWriter(&newBuf, c.WriterBuf)
	ow := oldwire.NewWriter(&oldBuf, c.WriterBuf)
	ctx := context.Background()
	sid, mid := uint64(1), uint64(0)
	var want, wantCtl []simplePkt
	nctl, multi := 0, false
	for i, ps := range c.Packets {
		if ps.Stream > 0 {
			sid += uint64(ps.Stream)
			mid = 0
		}
		mid++
		data := payload(i, ps.Size)
		np := drpcwire.Packet{Data: data, ID: drpcwire.ID{Stream: sid, Message: mid}, Kind: drpcwire.Kind(ps.Kind), Control: ps.Control}
		frames := 0
		if err := drpcwire.SplitN(np, ps.Split, func(fr drpcwire.Frame) error { frames++; return nw.WriteFrame(fr) }); err != nil {
			r.Failf("current writer failed")
			return
		}
		if frames > 1 {
			multi = true
		}
		if ps.Control {
			nctl++
			wantCtl = append(wantCtl, simplePkt{sid, mid, ps.Kind, data})
			continue // v0.0.17 never emits control packets and skips them when reading
		}
		want = append(want, simplePkt{sid, mid, ps.Kind, data})
		op := oldwire.Packet{Data: data, ID: oldwire.ID{Stream: sid, Message: mid}, Kind: oldwire.Kind(ps.Kind)}
		if err := oldwire.SplitN(ctx, op, ps.Split, func(ctx context.Context, fr oldwire.Frame) error { return ow.WriteFrame(ctx, fr) }); err != nil {
			r.Failf("v0.0.17 writer failed")
			return
		}
	}
	_ = nw.Flush()
	_ = ow.Flush(ctx)
	// new-encode -> old reader and new reader
	gotOld, err := readOld(newBuf.Bytes(), c.Chunk)
	if err != nil {
		r.Failf("the v0.0.17 reader rejects what the current writer emitted")
		r.Detailf("%v", err)
		return
	}
	if !samePkts(gotOld, want) {
		r.Failf("the v0.0.17 reader decodes the current writer's output to different packets")
		r.Detailf("got %d want %d", len(gotOld), len(want))
		return
	}
	gotNew, gotCtl, err := readNewAll(newBuf.Bytes(), c.Chunk)
	ctl := len(gotCtl)
	if err == nil && !samePkts(gotCtl, wantCtl) {
		r.Failf("the current reader changes control-bit packets (kind, id or data) on the way")
		return
	}
	if err != nil || !samePkts(gotNew, want) || ctl != nctl {
		r.Failf("the current reader does not decode its own writer's output")
		r.Detailf("%v ctl=%d want %d", err, ctl, nctl)
		return
	}
	// old-encode -> both readers, identical
	o2o, err1 := readOld(oldBuf.Bytes(), c.Chunk)
	o2n, ctl2, err2 := readNew(oldBuf.Bytes(), c.Chunk)
	if err1 != nil || err2 != nil || ctl2 != 0 || !samePkts(o2o, want) || !samePkts(o2n, want) {
		r.Failf("the current reader decodes the v0.0.17 writer's output differently from the v0.0.17 reader")
		r.Detailf("old->old err=%v n=%d; old->new err=%v n=%d ctl=%d; want %d", err1, len(o2o), err2, len(o2n), ctl2, len(want))
		return
	}
	if nctl > 0 {
		r.Label("control_packets")
	}
	if multi {
		r.Label("multi_frame")
	}
	r.NonTrivial = len(c.Packets) >= 2 && (multi || nctl > 0)
	r.Key = fmt.Sprintf("%+v", c)
	return
}

func TestC18Wire(t *testing.T) {
	gen := func(t *rapid.T) wireCase {
		c := wireCase{WriterBuf: rapid.SampledFrom([]int{0, 1, 50, 1 << 16}).Draw(t, "wbuf"), Chunk: rapid.SampledFrom([]int{0, 1, 7, 4096}).Draw(t, "chunk")}
		c.Packets = rapid.SliceOfN(rapid.Custom(func(t *rapid.T) pktSpec {
			p := pktSpec{Kind: uint8(rapid.IntRange(1, 7).Draw(t, "kind")), Split: rapid.SampledFrom([]int{0, 1, 5, 100, -1, 65536}).Draw(t, "split"), Stream: rapid.SampledFrom([]int{0, 0, 0, 1, 3}).Draw(t, "stream")}
			switch rapid.IntRange(0, 9).Draw(t, "sz") {
			case 0:
				// (4 MiB is the default packet limit of both versions' readers: exactly the limit is legal)
				p.Size = rapid.SampledFrom([]int{65535, 65536, 65537, 200000, 300000, 4 << 20, 4<<20 - 1}).Draw(t, "big")
			case 1, 2:
				p.Size = rapid.IntRange(0, 3000).Draw(t, "mid")
			default:
				p.Size = rapid.IntRange(0, 40).Draw(t, "small")
			}
			if p.Split > 0 && p.Split < 100 && p.Size > 4000 {
				p.Size = 4000
			}
			if p.Split == -1 && p.Size > 900000 {
				p.Size = 900000 // frames stay under the old reader's 1 MiB scanner limit
			}
			if rapid.IntRange(0, 4).Draw(t, "ctl") == 0 {
				p.Control = true
				p.Kind = rapid.SampledFrom([]uint8{4, 4, 9, 33, 63, 0}).Draw(t, "ctlkind")
			}
			return p
		}), 1, 10).Draw(t, "packets")
		huge := 0
		for i := range c.Packets {
			if c.Packets[i].Size >= 1<<20 {
				huge++
				if huge > 1 {
					c.Packets[i].Size = 300000 // one packet at the limit per case is enough
				}
			}
		}
		if huge > 0 && c.Chunk > 0 && c.Chunk < 4096 {
			c.Chunk = 4096 // reading 4 MiB a byte at a time only costs time
		}
		return c
	}
	pbt.Check(t, pbt.Prop[wireCase]{ID: "C18", Name: "wire", Gen: gen, Run: runWire})
}

// ---- metadata encoding across versions ---------------------------------------------------

type metaCase struct{ Pairs [][2]string }

func runMetaCompat(c metaCase) (r pbt.Result) {
	m := map[string]string{}
	for _, kv := range c.Pairs {
		m[kv[0]] = kv[1]
	}
	newEnc, err := drpcmetadata.Encode(nil, m)
	if err != nil {
		r.Failf("current Encode failed")
		return
	}
	same := func(a map[string]string) bool {
		if len(a) != len(m) {
			return false
		}
		for k, v := range m {
			if w, ok := a[k]; !ok || w != v {
				return false
			}
		}
		return true
	}
	for k, v := range m {
		if !utf8.ValidString(k) || !utf8.ValidString(v) {
			// v0.0.17 (protobuf string fields) can neither send nor accept invalid UTF-8: outside what released peers exchange
			r.Label("invalid_utf8_trivial")
			return
		}
	}
	// v0.0.17 reads what the current version writes
	if got, err := oldmeta.Decode(newEnc); err != nil || !same(got) {
		r.Failf("v0.0.17 does not decode the current metadata encoding to the same map")
		r.Detailf("m=%q got=%q err=%v bytes=%x", m, got, err, newEnc)
		return
	}
	// the current version reads what v0.0.17 writes (its encoder refuses invalid UTF-8: trivial case)
	oldEnc, err := oldmeta.Encode(nil, m)
	if err != nil {
		r.Label("old_encoder_refused")
		return
	}
	if got, err := drpcmetadata.Decode(oldEnc); err != nil || !same(got) {
		r.Failf("the current version does not decode the v0.0.17 metadata encoding to the same map")
		r.Detailf("m=%q got=%q err=%v bytes=%x", m, got, err, oldEnc)
		return
	}
	r.NonTrivial = len(m) >= 1
	for k, v := range m {
		if k == "" || v == "" {
			r.Label("empty_string")
		}
	}
	r.Key = fmt.Sprintf("%q", c.Pairs)
	return
}

func TestC18Metadata(t *testing.T) {
	str := rapid.OneOf(rapid.SampledFrom([]string{"", "a", "auth", "k=v", "ü", "\x00"}), rapid.StringN(0, 12, -1), rapid.Map(rapid.SliceOfN(rapid.Byte(), 0, 8), func(b []byte) string { return string(b) }),
		rapid.Map(rapid.IntRange(100, 300), func(n int) string { return string(bytes.Repeat([]byte{'x'}, n)) }))
	gen := func(t *rapid.T) metaCase {
		return metaCase{Pairs: rapid.SliceOfN(rapid.Custom(func(t *rapid.T) [2]string { return [2]string{str.Draw(t, "k"), str.Draw(t, "v")} }), 0, 6).Draw(t, "pairs")}
	}
	pbt.Check(t, pbt.Prop[metaCase]{ID: "C18", Name: "metadata", Gen: gen, Run: runMetaCompat})
}
