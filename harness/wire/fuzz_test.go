package wire

import (
	"bytes"
	"testing"

	"storj.io/drpc/drpcwire"

	"verif/ref"
)

// Native fuzz targets (thorough tier): coverage-guided byte-level search with the same
// differential oracles as the rapid checks inside the target.

func FuzzParseFrame(f *testing.F) {
	f.Add([]byte{})
	f.Add([]byte{0x05, 0x01, 0x01, 0x00})
	f.Add(ref.AppendFrame(nil, ref.Frame{Stream: 1<<64 - 1, Message: 1 << 63, Kind: 63, Done: true, Control: true, Data: []byte("payload")}))
	f.Add([]byte{0x04, 0x80, 0x80, 0x80, 0x80, 0x80, 0x80, 0x80, 0x80, 0x80, 0x80, 0x01, 0x01})
	f.Add([]byte{0x04, 0x01, 0x01, 0xff, 0xff, 0xff, 0xff, 0xff, 0xff, 0xff, 0xff, 0xff, 0x01})
	f.Fuzz(func(t *testing.T, b []byte) {
		r := runDifferential(bytesCase{"fuzz", b})
		if r.Fail != "" {
			t.Fatalf("%s\n%s", r.Fail, r.Detail)
		}
	})
}

func FuzzReader(f *testing.F) {
	seed := ref.AppendFrame(nil, ref.Frame{Stream: 1, Message: 1, Kind: 2, Data: []byte("ab")})
	seed = ref.AppendFrame(seed, ref.Frame{Stream: 1, Message: 1, Kind: 2, Done: true, Data: []byte("cd")})
	seed = ref.AppendFrame(seed, ref.Frame{Stream: 2, Message: 1, Kind: 1, Done: true, Control: true})
	f.Add(seed, uint16(64), uint8(3))
	f.Add([]byte{0x05, 0x01, 0x01, 0xff, 0xff, 0xff, 0xff, 0x0f}, uint16(16), uint8(1))
	f.Fuzz(func(t *testing.T, b []byte, max uint16, cut uint8) {
		c := c09Case{Max: int(max), Tail: b, Parts: []partition{{Cuts: []int{1}}, {Cuts: nil}, {Cuts: []int{int(cut) + 1}, ErrWith: true}}}
		r := runC09(c)
		if r.Fail != "" {
			t.Fatalf("%s\n%s", r.Fail, r.Detail)
		}
	})
}

func FuzzVarint(f *testing.F) {
	f.Add([]byte{0xff, 0xff, 0xff, 0xff, 0xff, 0xff, 0xff, 0xff, 0xff, 0x01})
	f.Fuzz(func(t *testing.T, b []byte) {
		r := runVarintBytes(bytesCase{"fuzz", b})
		if r.Fail != "" {
			t.Fatalf("%s\n%s", r.Fail, r.Detail)
		}
		if rem, v, ok, err := drpcwire.ReadVarint(b); ok && err == nil {
			if !bytes.Equal(drpcwire.AppendVarint(nil, v), ref.AppendUvarint(nil, v)) || len(rem) > len(b) {
				t.Fatalf("re-encoding differs")
			}
		}
	})
}
