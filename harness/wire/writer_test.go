package wire

import (
	"bytes"
	"fmt"
	"testing"

	"pgregory.net/rapid"
	"storj.io/drpc/drpcwire"

	"verif/pbt"
	"verif/ref"
)

// The frame writer is shared by all streams of a connection; each new stream Resets it ("Reset clears any pending
// data in the buffer"). Model-based check of drpcwire.Writer against its documentation: after every step the bytes
// handed to the underlying io.Writer and Empty() are those of the model
//
//	pending := frames written since the last flush/reset; WriteFrame appends and flushes once len(pending) >= size;
//	Flush writes pending if there is any; Reset discards pending; Empty() == (pending is empty).
//
// It serves C07 (what reaches the transport is a sequence of whole frames, nothing of an earlier stream after a
// later one began) and C02 (nothing written on one RPC is sent as part of another).

type wrOp struct {
	Kind string // frame flush reset
	Size int
}

type wrCase struct {
	BufSize int
	Ops     []wrOp
}

type recSink struct{ b []byte }

func (s *recSink) Write(p []byte) (int, error) { s.b = append(s.b, p...); return len(p), nil }

func runWriterModel(c wrCase) (r pbt.Result) {
	sk := &recSink{}
	w := drpcwire.NewWriter(sk, c.BufSize)
	size := c.BufSize
	if size == 0 {
		size = 4 * 1024
	}
	var pending, want []byte
	mid := uint64(0)
	resets, carried := 0, false
	for i, op := range c.Ops {
		switch op.Kind {
		case "frame":
			mid++
			data := make([]byte, op.Size)
			for j := range data {
				data[j] = byte(int(mid) + j)
			}
			fr := drpcwire.Frame{Data: data, ID: drpcwire.ID{Stream: 1, Message: mid}, Kind: drpcwire.KindMessage, Done: true}
			if err := w.WriteFrame(fr); err != nil {
				r.Failf("WriteFrame failed on a sink that never fails")
				return
			}
			pending = ref.AppendFrame(pending, ref.Frame{Stream: 1, Message: mid, Kind: 2, Done: true, Data: data})
			if len(pending) >= size {
				want, pending = append(want, pending...), nil
			}
		case "flush":
			if err := w.Flush(); err != nil {
				r.Failf("Flush failed on a sink that never fails")
				return
			}
			want, pending = append(want, pending...), nil
		case "reset":
			if len(pending) > 0 {
				carried = true // there was something to discard
			}
			w.Reset()
			pending = nil
			resets++
		}
		if !bytes.Equal(sk.b, want) {
			r.Failf("the writer handed bytes to the transport that differ from the frames written since the last reset")
			r.Detailf("after step %d (%+v): got %d bytes, want %d", i, op, len(sk.b), len(want))
			return
		}
		if w.Empty() != (len(pending) == 0) {
			r.Failf("Empty() disagrees with what is buffered")
			r.Detailf("after step %d (%+v): Empty()=%v, %d bytes pending in the model", i, op, w.Empty(), len(pending))
			return
		}
	}
	if resets > 0 {
		r.Label("reset")
	}
	if carried {
		r.Label("reset_with_pending_data")
	}
	r.NonTrivial = carried
	r.Key = fmt.Sprintf("%+v", c)
	return
}

func TestWriterModel(t *testing.T) {
	gen := func(t *rapid.T) wrCase {
		c := wrCase{BufSize: rapid.SampledFrom([]int{0, 1, 16, 64, 1000}).Draw(t, "bufsize")}
		c.Ops = rapid.SliceOfN(rapid.Custom(func(t *rapid.T) wrOp {
			return wrOp{Kind: rapid.SampledFrom([]string{"frame", "frame", "frame", "flush", "reset"}).Draw(t, "op"),
				Size: rapid.SampledFrom([]int{0, 1, 5, 20, 70, 300, 5000}).Draw(t, "size")}
		}), 1, 14).Draw(t, "ops")
		return c
	}
	pbt.Check(t, pbt.Prop[wrCase]{ID: "C07", Name: "writer_model", Gen: gen, Run: runWriterModel})
}
