// Package wire holds the pure input-space checks of drpcwire (C08, C09 and the
// wire parts of C13).
package wire

import (
	"pgregory.net/rapid"

	"verif/ref"
)

// boundary 64-bit values: 0, 1, 2^k-1, 2^k, 2^k+1 around every varint group
// boundary, and the extremes.
var boundaryU64 = func() []uint64 {
	out := []uint64{0, 1, 2, 127, 128, 129, 255, 256, 16383, 16384, 1<<32 - 1, 1 << 32, 1<<63 - 1, 1 << 63, 1<<64 - 1, 1<<64 - 2}
	for k := uint(7); k < 64; k += 7 {
		out = append(out, 1<<k-1, 1<<k, 1<<k+1)
	}
	return out
}()

func genU64() *rapid.Generator[uint64] {
	return rapid.OneOf(
		rapid.SampledFrom(boundaryU64),
		rapid.Uint64Range(0, 300),
		rapid.Uint64(),
	)
}

func genPayload(max int) *rapid.Generator[[]byte] {
	return rapid.Custom(func(t *rapid.T) []byte {
		var n int
		switch rapid.IntRange(0, 9).Draw(t, "szclass") {
		case 0:
			n = 0
		case 1, 2, 3, 4:
			n = rapid.IntRange(0, 20).Draw(t, "sz")
		case 5, 6:
			n = rapid.SampledFrom([]int{126, 127, 128, 129, 255, 256}).Draw(t, "sz")
		case 7, 8:
			n = rapid.IntRange(0, 600).Draw(t, "sz")
		default:
			n = rapid.IntRange(0, max).Draw(t, "sz")
		}
		if n > max {
			n = max
		}
		seed := rapid.Byte().Draw(t, "fill")
		b := make([]byte, n)
		x := uint32(seed)*2654435761 + 12345
		for i := range b {
			x = x*1664525 + 1013904223
			b[i] = byte(x >> 24)
		}
		return b
	})
}

func genFrame(maxPayload int) *rapid.Generator[ref.Frame] {
	return rapid.Custom(func(t *rapid.T) ref.Frame {
		return ref.Frame{
			Kind:    uint8(rapid.IntRange(0, 63).Draw(t, "kind")),
			Done:    rapid.Bool().Draw(t, "done"),
			Control: rapid.Bool().Draw(t, "control"),
			Stream:  genU64().Draw(t, "stream"),
			Message: genU64().Draw(t, "message"),
			Data:    genPayload(maxPayload).Draw(t, "data"),
		}
	})
}

// paddedVarint encodes v with extra continuation groups (non-minimal) up to n bytes total.
func paddedVarint(v uint64, n int) []byte {
	b := ref.AppendUvarint(nil, v)
	for len(b) < n {
		b[len(b)-1] |= 0x80
		b = append(b, 0)
	}
	return b
}
