package wire

import (
	"bytes"
	"encoding/binary"
	"encoding/hex"
	"errors"
	"fmt"
	"math/bits"
	"testing"

	"pgregory.net/rapid"
	"storj.io/drpc/drpcwire"

	"verif/pbt"
	"verif/ref"
)

func toWire(f ref.Frame) drpcwire.Frame {
	return drpcwire.Frame{Data: f.Data, ID: drpcwire.ID{Stream: f.Stream, Message: f.Message}, Kind: drpcwire.Kind(f.Kind), Done: f.Done, Control: f.Control}
}

func sameFrame(w drpcwire.Frame, f ref.Frame) bool {
	return w.ID.Stream == f.Stream && w.ID.Message == f.Message && uint8(w.Kind) == f.Kind && w.Done == f.Done && w.Control == f.Control && bytes.Equal(w.Data, f.Data)
}

// ---- round trip ----------------------------------------------------------------

type rtCase struct {
	Frame  ref.Frame
	Prefix []byte
	Suffix []byte
}

func runRoundTrip(c rtCase) (r pbt.Result) {
	pre := append(make([]byte, 0, len(c.Prefix)+8), c.Prefix...) // spare capacity: Append may write in place
	enc := drpcwire.AppendFrame(pre, toWire(c.Frame))
	if len(enc) < len(c.Prefix) || !bytes.Equal(enc[:len(c.Prefix)], c.Prefix) {
		r.Failf("AppendFrame altered the existing prefix of the buffer")
		return
	}
	body := enc[len(c.Prefix):]
	if want := ref.AppendFrame(nil, c.Frame); !bytes.Equal(body, want) {
		r.Failf("AppendFrame bytes differ from the wire description")
		r.Detailf("got  %x\nwant %x", body, want)
		return
	}
	in := append(append([]byte(nil), body...), c.Suffix...)
	orig := append([]byte(nil), in...)
	rem, fr, ok, err := drpcwire.ParseFrame(in)
	if err != nil || !ok {
		r.Failf("ParseFrame rejected an encoded frame")
		r.Detailf("ok=%v err=%v", ok, err)
		return
	}
	if !sameFrame(fr, c.Frame) {
		r.Failf("round trip changed the frame")
		r.Detailf("got %+v want %+v", fr, c.Frame)
		return
	}
	if !bytes.Equal(rem, c.Suffix) || len(rem) != len(c.Suffix) {
		r.Failf("round trip did not consume exactly the encoded bytes")
		return
	}
	if !bytes.Equal(in, orig) {
		r.Failf("ParseFrame modified its input")
		return
	}
	if c.Frame.Stream >= 128 || c.Frame.Message >= 128 || len(c.Frame.Data) >= 128 {
		r.Label("multibyte_varint")
		r.NonTrivial = true
	}
	if len(c.Frame.Data) > 0 {
		r.Label("payload")
		r.NonTrivial = true
	}
	if c.Frame.Kind == 0 || c.Frame.Kind > 7 {
		r.Label("kind_outside_1_7")
	}
	if len(c.Suffix) > 0 {
		r.Label("suffix")
	}
	r.Key = hex.EncodeToString(body) + "|" + hex.EncodeToString(c.Suffix)
	return
}

func TestC08RoundTrip(t *testing.T) {
	max := 3000
	if pbt.Thorough() {
		max = 70 << 10
	}
	pbt.Check(t, pbt.Prop[rtCase]{ID: "C08", Name: "roundtrip",
		Gen: func(t *rapid.T) rtCase {
			return rtCase{Frame: genFrame(max).Draw(t, "frame"), Prefix: genPayload(40).Draw(t, "prefix"), Suffix: genPayload(40).Draw(t, "suffix")}
		},
		Run: runRoundTrip})
}

// ---- differential on byte strings ---------------------------------------------------

type bytesCase struct {
	Origin string
	B      []byte
}

func classify(ok bool, err error) ref.Class {
	switch {
	case err != nil:
		return ref.Malformed
	case ok:
		return ref.OK
	}
	return ref.NeedMore
}

func runDifferential(c bytesCase) (r pbt.Result) {
	in := append([]byte(nil), c.B...)
	rem, fr, ok, err := drpcwire.ParseFrame(in)
	if !bytes.Equal(in, c.B) {
		r.Failf("ParseFrame modified its input")
		return
	}
	got := classify(ok, err)
	if ok && err != nil {
		r.Failf("ParseFrame returned ok together with an error")
		return
	}
	wfr, wrem, want := ref.ParseFrame(c.B)
	r.Label("class_" + want.String())
	r.Label("origin_" + c.Origin)
	if got != want {
		r.Failf("ParseFrame class %s, reference %s", got, want)
		r.Detailf("input %x err=%v", c.B, err)
		return
	}
	switch want {
	case ref.OK:
		if !sameFrame(fr, wfr) {
			r.Failf("ParseFrame fields differ from the reference")
			r.Detailf("input %x got %+v want %+v", c.B, fr, wfr)
			return
		}
		if len(rem) != len(wrem) || !bytes.Equal(rem, wrem) {
			r.Failf("ParseFrame remainder differs from the reference")
			return
		}
		// re-encoding (canonical) and re-parsing gives the same frame
		re := drpcwire.AppendFrame(nil, fr)
		_, fr2, ok2, err2 := drpcwire.ParseFrame(re)
		if !ok2 || err2 != nil || !sameFrame(fr2, wfr) {
			r.Failf("re-encoded frame does not parse back")
			return
		}
	case ref.NeedMore:
		if len(rem) != len(c.B) {
			r.Failf("need-more answer consumed bytes")
			return
		}
		// need-more only for proper prefixes of a frame: construct the completion.
		full, can, huge := ref.CompleteFrame(c.B, 1<<20)
		if !can {
			r.Failf("need-more answered for bytes that no extension can complete")
			r.Detailf("input %x", c.B)
			return
		}
		if !huge {
			rem2, _, ok2, err2 := drpcwire.ParseFrame(full)
			if !ok2 || err2 != nil || len(rem2) != 0 {
				r.Failf("constructed completion of a need-more input does not parse")
				r.Detailf("input %x full %x ok=%v err=%v", c.B, full, ok2, err2)
				return
			}
			r.Label("completed")
		} else {
			r.Label("huge_declared_length")
		}
	case ref.Malformed:
		if len(rem) != len(c.B) {
			r.Failf("error answer consumed bytes")
			return
		}
	}
	r.NonTrivial = len(c.B) >= 4
	r.Key = hex.EncodeToString(c.B)
	return
}

// genBytes: structure-aware malformations of valid frames plus raw strings.
func genBytes(maxPayload int) *rapid.Generator[bytesCase] {
	hostile := []byte{0x00, 0x01, 0x7f, 0x80, 0xff, 0x81, 0xfe}
	return rapid.Custom(func(t *rapid.T) bytesCase {
		switch rapid.IntRange(0, 7).Draw(t, "origin") {
		case 0: // raw short strings over a hostile alphabet
			n := rapid.IntRange(0, 14).Draw(t, "n")
			b := make([]byte, n)
			for i := range b {
				b[i] = rapid.SampledFrom(hostile).Draw(t, "b")
			}
			return bytesCase{"hostile", b}
		case 1: // raw random
			return bytesCase{"random", rapid.SliceOfN(rapid.Byte(), 0, 40).Draw(t, "b")}
		case 2: // truncation of a valid frame at every offset (drawn)
			f := genFrame(maxPayload).Draw(t, "frame")
			enc := ref.AppendFrame(nil, f)
			k := rapid.IntRange(0, len(enc)).Draw(t, "cut")
			return bytesCase{"truncated", enc[:k]}
		case 3: // padded (non-minimal) varints of 2..11 bytes in any header field
			f := genFrame(200).Draw(t, "frame")
			b := []byte{ref.AppendFrame(nil, ref.Frame{Kind: f.Kind, Done: f.Done, Control: f.Control})[0]}
			vals := []uint64{f.Stream, f.Message, uint64(len(f.Data))}
			for i, v := range vals {
				n := rapid.IntRange(1, 11).Draw(t, fmt.Sprintf("pad%d", i))
				if min := len(ref.AppendUvarint(nil, v)); n < min {
					n = min
				}
				b = append(b, paddedVarint(v, n)...)
			}
			b = append(b, f.Data...)
			b = append(b, genPayload(10).Draw(t, "suffix")...)
			return bytesCase{"padded", b}
		case 4: // huge declared length
			f := genFrame(50).Draw(t, "frame")
			b := []byte{ref.AppendFrame(nil, ref.Frame{Kind: f.Kind, Done: f.Done, Control: f.Control})[0]}
			b = ref.AppendUvarint(b, f.Stream)
			b = ref.AppendUvarint(b, f.Message)
			b = ref.AppendUvarint(b, rapid.SampledFrom([]uint64{1 << 31, 1<<32 - 1, 1 << 32, 1<<63 - 1, 1 << 63, 1<<64 - 1, uint64(len(f.Data)) + 1}).Draw(t, "len"))
			b = append(b, f.Data...)
			return bytesCase{"hugelen", b}
		case 5: // 10th varint byte with high bits / continuation
			f := genFrame(20).Draw(t, "frame")
			b := []byte{byte(f.Kind) << 1}
			field := rapid.IntRange(0, 2).Draw(t, "field")
			for i := 0; i < 3; i++ {
				if i == field {
					for j := 0; j < 9; j++ {
						b = append(b, rapid.SampledFrom([]byte{0x80, 0xff, 0x81}).Draw(t, "g"))
					}
					b = append(b, rapid.SampledFrom([]byte{0x00, 0x01, 0x02, 0x7f, 0x80, 0xff, 0x7e}).Draw(t, "last"))
				} else {
					b = append(b, byte(rapid.IntRange(0, 5).Draw(t, "small")))
				}
			}
			b = append(b, f.Data...)
			return bytesCase{"tenth_byte", b}
		case 6: // a valid frame followed by arbitrary bytes
			f := genFrame(maxPayload).Draw(t, "frame")
			b := ref.AppendFrame(nil, f)
			b = append(b, rapid.SliceOfN(rapid.Byte(), 0, 20).Draw(t, "tail")...)
			return bytesCase{"valid_plus_tail", b}
		default: // mutate one byte of a valid frame header
			f := genFrame(30).Draw(t, "frame")
			b := ref.AppendFrame(nil, f)
			i := rapid.IntRange(0, len(b)-1).Draw(t, "pos")
			b[i] ^= byte(1 << uint(rapid.IntRange(0, 7).Draw(t, "bit")))
			return bytesCase{"bitflip", b}
		}
	})
}

func TestC08Differential(t *testing.T) {
	pbt.Check(t, pbt.Prop[bytesCase]{ID: "C08", Name: "differential", Gen: pbt.G(genBytes(600)), Run: runDifferential})
}

// ---- every proper prefix of a valid encoding is need-more --------------------------

func runPrefixes(f ref.Frame) (r pbt.Result) {
	enc := ref.AppendFrame(nil, f)
	for k := 0; k < len(enc); k++ {
		rem, _, ok, err := drpcwire.ParseFrame(enc[:k:k])
		if ok || err != nil || len(rem) != k {
			r.Failf("a proper prefix of a valid frame was not answered need-more")
			r.Detailf("frame %+v cut %d/%d ok=%v err=%v", f, k, len(enc), ok, err)
			return
		}
	}
	r.NonTrivial = len(enc) > 4
	r.Label(fmt.Sprintf("prefixes_%dx", bits.Len(uint(len(enc)))))
	r.Key = hex.EncodeToString(enc)
	return
}

func TestC08Prefixes(t *testing.T) {
	pbt.Check(t, pbt.Prop[ref.Frame]{ID: "C08", Name: "prefixes", Gen: pbt.G(genFrame(300)), Run: runPrefixes})
}

// ---- varints ------------------------------------------------------------------------

func runVarint(v uint64) (r pbt.Result) {
	pre := []byte{0xAA, 0xBB}
	enc := drpcwire.AppendVarint(append([]byte(nil), pre...), v)
	if !bytes.Equal(enc[:2], pre) {
		r.Failf("AppendVarint altered the buffer prefix")
		return
	}
	body := enc[2:]
	wantLen := (bits.Len64(v) + 6) / 7
	if wantLen == 0 {
		wantLen = 1
	}
	if len(body) != wantLen {
		r.Failf("varint encoded length is not ceil(bits/7)")
		r.Detailf("v=%d len=%d want=%d", v, len(body), wantLen)
		return
	}
	var std [binary.MaxVarintLen64]byte
	if n := binary.PutUvarint(std[:], v); !bytes.Equal(std[:n], body) {
		r.Failf("varint encoding differs from the canonical LEB128 encoding")
		return
	}
	in := append(append([]byte(nil), body...), 0x55, 0x80)
	rem, out, ok, err := drpcwire.ReadVarint(in)
	if !ok || err != nil || out != v || len(rem) != 2 || rem[0] != 0x55 {
		r.Failf("varint does not round-trip")
		r.Detailf("v=%d out=%d ok=%v err=%v rem=%x", v, out, ok, err, rem)
		return
	}
	rv, rn, rc := ref.Uvarint(in)
	if rc != ref.OK || rv != v || rn != len(body) {
		r.Failf("reference varint decoder disagrees with itself") // harness self-check
		return
	}
	// every proper prefix is need-more and leaves the buffer alone
	for k := 0; k < len(body); k++ {
		rem, _, ok, err := drpcwire.ReadVarint(body[:k:k])
		if ok || err != nil || len(rem) != k {
			r.Failf("proper prefix of a varint not answered need-more")
			return
		}
	}
	r.NonTrivial = v >= 128
	r.Label(fmt.Sprintf("len%d", len(body)))
	r.Key = fmt.Sprint(v)
	return
}

func TestC08Varint(t *testing.T) {
	pbt.Check(t, pbt.Prop[uint64]{ID: "C08", Name: "varint", Gen: pbt.G(genU64()), Run: runVarint})
}

// arbitrary bytes into ReadVarint vs the reference
func runVarintBytes(c bytesCase) (r pbt.Result) {
	rem, out, ok, err := drpcwire.ReadVarint(c.B)
	v, n, cls := ref.Uvarint(c.B)
	got := classify(ok, err)
	r.Label("class_" + cls.String())
	if got != cls {
		r.Failf("ReadVarint class %s, reference %s", got, cls)
		r.Detailf("input %x", c.B)
		return
	}
	if cls == ref.OK && (out != v || len(rem) != len(c.B)-n) {
		r.Failf("ReadVarint value or consumed length differs from the reference")
		r.Detailf("input %x out=%d want=%d", c.B, out, v)
		return
	}
	if cls == ref.NeedMore && len(rem) != len(c.B) {
		r.Failf("ReadVarint need-more consumed bytes")
		return
	}
	r.NonTrivial = len(c.B) >= 2
	r.Key = hex.EncodeToString(c.B)
	return
}

func TestC08VarintBytes(t *testing.T) {
	gen := rapid.Custom(func(t *rapid.T) bytesCase {
		if rapid.IntRange(0, 3).Draw(t, "long") == 0 { // 8..11 continuation groups, then a drawn last byte
			k := rapid.IntRange(8, 11).Draw(t, "k")
			b := make([]byte, k, k+2)
			for i := range b {
				b[i] = rapid.SampledFrom([]byte{0x80, 0xff, 0x81}).Draw(t, "g")
			}
			b = append(b, rapid.SampledFrom([]byte{0x00, 0x01, 0x02, 0x7f, 0x80, 0xff}).Draw(t, "last"))
			return bytesCase{"varint_long", b}
		}
		n := rapid.IntRange(0, 12).Draw(t, "n")
		b := make([]byte, n)
		for i := range b {
			b[i] = rapid.SampledFrom([]byte{0x00, 0x01, 0x7f, 0x80, 0xff, 0x81, 0x02, 0xfe}).Draw(t, "b")
		}
		return bytesCase{"varint", b}
	})
	pbt.Check(t, pbt.Prop[bytesCase]{ID: "C08", Name: "varintbytes", Gen: pbt.G(gen), Run: runVarintBytes})
}

// ---- SplitN / SplitData --------------------------------------------------------------

type splitCase struct {
	Data    []byte
	N       int
	Kind    uint8
	Control bool
	Stream  uint64
	Message uint64
	StopAt  int // callback returns an error at this frame index (-1: never)
}

func runSplit(c splitCase) (r pbt.Result) {
	pkt := drpcwire.Packet{Data: c.Data, ID: drpcwire.ID{Stream: c.Stream, Message: c.Message}, Kind: drpcwire.Kind(c.Kind), Control: c.Control}
	var frames []drpcwire.Frame
	stop := errors.New("stop")
	err := drpcwire.SplitN(pkt, c.N, func(fr drpcwire.Frame) error {
		if len(frames) == c.StopAt {
			return stop
		}
		frames = append(frames, fr)
		if len(frames) > len(c.Data)+2 {
			return errors.New("runaway")
		}
		return nil
	})
	limit := c.N
	if c.N == 0 {
		limit = 64 * 1024
	}
	wantFrames := 1
	if limit > 0 && len(c.Data) > 0 {
		wantFrames = (len(c.Data) + limit - 1) / limit
	}
	if c.StopAt >= 0 && c.StopAt < wantFrames {
		if err != stop {
			r.Failf("SplitN did not stop with the callback's error")
			return
		}
		if len(frames) != c.StopAt {
			r.Failf("SplitN called the callback after it returned an error")
			return
		}
		r.Label("callback_error")
	} else {
		if err != nil {
			r.Failf("SplitN returned an unexpected error")
			r.Detailf("%v", err)
			return
		}
		if len(frames) != wantFrames {
			r.Failf("SplitN produced a wrong number of frames")
			r.Detailf("len=%d n=%d frames=%d want=%d", len(c.Data), c.N, len(frames), wantFrames)
			return
		}
		var cat []byte
		for i, fr := range frames {
			if limit > 0 && len(fr.Data) > limit {
				r.Failf("SplitN frame larger than n")
				return
			}
			if fr.Done != (i == len(frames)-1) {
				r.Failf("SplitN done flag not exactly on the last frame")
				return
			}
			if fr.ID != pkt.ID || fr.Kind != pkt.Kind || fr.Control != pkt.Control {
				r.Failf("SplitN frame header differs from the packet")
				return
			}
			if i < len(frames)-1 && limit > 0 && len(fr.Data) != limit {
				r.Failf("SplitN non-final frame is not full")
				return
			}
			cat = append(cat, fr.Data...)
		}
		if !bytes.Equal(cat, c.Data) {
			r.Failf("SplitN frames do not concatenate to the packet data")
			return
		}
	}
	// SplitData directly
	pre, suf := drpcwire.SplitData(c.Data, c.N)
	if !bytes.Equal(append(append([]byte(nil), pre...), suf...), c.Data) {
		r.Failf("SplitData lost or altered bytes")
		return
	}
	if limit > 0 && len(c.Data) > limit && len(pre) != limit {
		r.Failf("SplitData prefix has the wrong size")
		return
	}
	if (limit <= 0 || len(c.Data) <= limit) && (len(pre) != len(c.Data) || len(suf) != 0) {
		r.Failf("SplitData split a buffer that fits")
		return
	}
	if wantFrames > 1 {
		r.Label("multi_frame")
		r.NonTrivial = true
	}
	if c.N < 0 {
		r.Label("n_negative")
	}
	if c.N == 0 {
		r.Label("n_default")
	}
	if len(c.Data) == 0 {
		r.Label("empty")
	}
	if limit > 0 && len(c.Data)%limit == 0 && len(c.Data) > 0 {
		r.Label("exact_multiple")
		r.NonTrivial = true
	}
	r.Key = fmt.Sprintf("%d/%d/%d", len(c.Data), c.N, c.StopAt)
	return
}

func TestC08Split(t *testing.T) {
	gen := rapid.Custom(func(t *rapid.T) splitCase {
		n := rapid.SampledFrom([]int{-5, -1, 0, 1, 2, 3, 7, 64, 100, 1000, 65535, 65536, 65537}).Draw(t, "n")
		var size int
		lim := n
		if n == 0 {
			lim = 65536
		}
		if lim > 0 && lim <= 1000 {
			size = rapid.SampledFrom([]int{0, 1, lim - 1, lim, lim + 1, 2*lim - 1, 2 * lim, 2*lim + 1, 5 * lim, 5*lim + 3}).Draw(t, "size")
		} else if lim > 0 {
			size = rapid.SampledFrom([]int{0, 1, 100, lim - 1, lim, lim + 1, 2 * lim, 2*lim + 1, 3*lim - 1}).Draw(t, "size")
		} else {
			size = rapid.SampledFrom([]int{0, 1, 100, 70000, 200000}).Draw(t, "size")
		}
		if size < 0 {
			size = 0
		}
		data := make([]byte, size)
		seed := uint32(rapid.Byte().Draw(t, "fill"))
		for i := range data {
			seed = seed*1664525 + 1013904223
			data[i] = byte(seed >> 24)
		}
		return splitCase{Data: data, N: n, Kind: uint8(rapid.IntRange(0, 63).Draw(t, "kind")), Control: rapid.Bool().Draw(t, "ctl"),
			Stream: genU64().Draw(t, "s"), Message: genU64().Draw(t, "m"), StopAt: rapid.IntRange(-1, 4).Draw(t, "stop")}
	})
	pbt.Check(t, pbt.Prop[splitCase]{ID: "C08", Name: "split", Gen: pbt.G(gen), Run: func(c splitCase) pbt.Result {
		r := runSplit(c)
		r.Sample = map[string]any{"len": len(c.Data), "n": c.N, "stopAt": c.StopAt, "kind": c.Kind}
		return r
	}})
}

// ---- exhaustive short strings --------------------------------------------------------

// TestC08Exhaustive enumerates every byte string of length <= 2 and every string
// of length 3..5 over the byte classes {00,01,7f,80,ff} (plus length 6..11 over
// {00,80,ff} in the thorough tier) through the differential oracle.
func TestC08Exhaustive(t *testing.T) {
	p := pbt.Prop[bytesCase]{ID: "C08", Name: "exhaustive", Run: runDifferential}
	n := 0
	try := func(b []byte) {
		c := bytesCase{"exhaustive", append([]byte(nil), b...)}
		r := runDifferential(c)
		r.NonTrivial = true // every enumerated string is distinct by construction
		pbt.Record(p, c, r)
		n++
		if r.Fail != "" {
			path := pbt.SaveFailure(p, c, r)
			t.Fatalf("%s on %x [replay=%s]", r.Fail, b, path)
		}
	}
	try(nil)
	for a := 0; a < 256; a++ {
		try([]byte{byte(a)})
		for b := 0; b < 256; b++ {
			try([]byte{byte(a), byte(b)})
		}
	}
	if pbt.Thorough() {
		// every string of length 3 as well (16.7 M)
		var b [3]byte
		for x := 0; x < 1<<24; x++ {
			b[0], b[1], b[2] = byte(x>>16), byte(x>>8), byte(x)
			c := bytesCase{"exhaustive", b[:]}
			if r := runDifferential(c); r.Fail != "" {
				path := pbt.SaveFailure(p, bytesCase{"exhaustive", append([]byte(nil), b[:]...)}, r)
				t.Fatalf("%s on %x [replay=%s]", r.Fail, b, path)
			}
		}
		pbt.AddEvaluations(p, 1<<24)
		n += 1 << 24
	}
	var rec func(prefix []byte, depth int, alpha []byte)
	rec = func(prefix []byte, depth int, alpha []byte) {
		if depth == 0 {
			try(prefix)
			return
		}
		for _, x := range alpha {
			rec(append(prefix, x), depth-1, alpha)
		}
	}
	for l := 3; l <= 5; l++ {
		rec(nil, l, []byte{0x00, 0x01, 0x7f, 0x80, 0xff})
	}
	maxL := 8
	if pbt.Thorough() {
		maxL = 12
	}
	for l := 6; l <= maxL; l++ {
		rec(nil, l, []byte{0x00, 0x80, 0xff})
	}
	t.Logf("exhaustive: %d strings", n)
}
