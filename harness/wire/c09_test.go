package wire

import (
	"bytes"
	"errors"
	"fmt"
	"hash/fnv"
	"io"
	"testing"

	"pgregory.net/rapid"
	"storj.io/drpc"
	"storj.io/drpc/drpcwire"

	"verif/pbt"
	"verif/ref"
)

// chunkReader feeds a fixed byte stream to the reader following a partition plan.
type chunkReader struct {
	data     []byte
	cuts     []int // chunk sizes, cycled; <=0 means "everything that fits"
	ci       int
	empties  []int // number of (0,nil) reads to insert before chunk i (cycled)
	ei       int
	pendingE int
	errWith  bool  // deliver the final error together with the last bytes
	final    error // error after the last byte
	maxAsk   int   // largest len(p) the reader ever asked for
	consumed int
	reads    int
}

func (c *chunkReader) Read(p []byte) (int, error) {
	c.reads++
	if len(p) > c.maxAsk {
		c.maxAsk = len(p)
	}
	if len(p) == 0 {
		return 0, nil
	}
	if c.pendingE == 0 && len(c.empties) > 0 {
		c.pendingE = c.empties[c.ei%len(c.empties)]
		c.ei++
		if c.pendingE > 0 {
			c.pendingE = -c.pendingE // negative: still to serve
		} else {
			c.pendingE = 0
		}
	}
	if c.pendingE < 0 {
		c.pendingE++
		if c.pendingE == 0 {
			c.pendingE = 1 // served all; marker so we do not redraw before the data read
		}
		return 0, nil
	}
	c.pendingE = 0
	if len(c.data) == 0 {
		return 0, c.final
	}
	n := len(c.data)
	if len(c.cuts) > 0 {
		if k := c.cuts[c.ci%len(c.cuts)]; k > 0 && k < n {
			n = k
		}
		c.ci++
	}
	if n > len(p) {
		n = len(p)
	}
	copy(p, c.data[:n])
	c.data = c.data[n:]
	c.consumed += n
	if len(c.data) == 0 && c.errWith {
		return n, c.final
	}
	return n, nil
}

type partition struct {
	Cuts    []int
	Empties []int
	ErrWith bool
}

type frameSpec struct {
	ref.Frame
	PadS, PadM, PadL int // non-minimal varint lengths (0 = minimal)
}

type c09Case struct {
	Max    int
	Frames []frameSpec
	Tail   []byte // raw bytes appended after the frames (garbage / truncated frame)
	Parts  []partition
}

func (c c09Case) bytes() []byte {
	var b []byte
	for _, f := range c.Frames {
		if f.PadS == 0 && f.PadM == 0 && f.PadL == 0 {
			b = ref.AppendFrame(b, f.Frame)
			continue
		}
		b = append(b, ref.AppendFrame(nil, ref.Frame{Kind: f.Kind, Done: f.Done, Control: f.Control})[0])
		for i, v := range []uint64{f.Stream, f.Message, uint64(len(f.Data))} {
			n := []int{f.PadS, f.PadM, f.PadL}[i]
			if min := len(ref.AppendUvarint(nil, v)); n < min {
				n = min
			}
			b = append(b, paddedVarint(v, n)...)
		}
		b = append(b, f.Data...)
	}
	return append(b, c.Tail...)
}

type readOutcome struct {
	pkts    []ref.Packet
	class   string // "protocol", "io", "internal", "other"
	err     error
	maxAsk  int
	bufCap  int
	reads   int
	maxData int
}

var errFinal = errors.New("verif: transport failed")

func runReader(data []byte, max int, p partition, final error) (o readOutcome) {
	cr := &chunkReader{data: data, cuts: p.Cuts, empties: p.Empties, errWith: p.ErrWith, final: final}
	rd := drpcwire.NewReaderWithOptions(cr, drpcwire.ReaderOptions{MaximumBufferSize: max})
	var buf []byte
	for i := 0; ; i++ {
		pkt, err := rd.ReadPacketUsing(buf)
		if c := rd.VerifBufCap(); c > o.bufCap {
			o.bufCap = c
		}
		if cap(pkt.Data) > o.maxData {
			o.maxData = cap(pkt.Data)
		}
		if err != nil {
			o.err = err
			switch {
			case errors.Is(err, final):
				o.class = "io"
			case drpc.ProtocolError.Has(err):
				o.class = "protocol"
			case drpc.InternalError.Has(err):
				o.class = "internal"
			default:
				o.class = "other"
			}
			break
		}
		o.pkts = append(o.pkts, ref.Packet{Stream: pkt.ID.Stream, Message: pkt.ID.Message, Kind: uint8(pkt.Kind), Control: pkt.Control, Data: append([]byte(nil), pkt.Data...)})
		buf = pkt.Data // reuse, as the manager does
		if i > len(data)+10 {
			o.class = "runaway"
			break
		}
	}
	o.maxAsk, o.reads = cr.maxAsk, cr.reads
	return
}

func samePackets(a, b []ref.Packet) bool {
	if len(a) != len(b) {
		return false
	}
	for i := range a {
		if a[i].Stream != b[i].Stream || a[i].Message != b[i].Message || a[i].Kind != b[i].Kind || a[i].Control != b[i].Control || !bytes.Equal(a[i].Data, b[i].Data) {
			return false
		}
	}
	return true
}

func descPackets(ps []ref.Packet) string {
	s := ""
	for _, p := range ps {
		s += fmt.Sprintf("<s%d m%d k%d c%v len%d> ", p.Stream, p.Message, p.Kind, p.Control, len(p.Data))
	}
	return s
}

func runC09(c c09Case) (r pbt.Result) {
	data := c.bytes()
	max := c.Max
	effMax := max
	if effMax == 0 {
		effMax = 4 << 20
	}
	want := ref.Reassemble(data, effMax)
	seenEv := map[string]bool{}
	for _, e := range want.Events {
		if !seenEv[e] {
			seenEv[e] = true
			r.Label("ev_" + e)
		}
	}
	wantClass := "io"
	if want.Protocol {
		wantClass = "protocol"
	}
	outs := make([]readOutcome, len(c.Parts))
	for i, p := range c.Parts {
		outs[i] = runReader(data, max, p, errFinal)
		o := outs[i]
		if o.class == "runaway" || o.class == "other" {
			r.Failf("reader returned an unclassifiable result (%s)", o.class)
			r.Detailf("partition %d err=%v", i, o.err)
			return
		}
		// memory: buffers stay within a small multiple of max plus a constant
		bound := 4*effMax + 64<<10
		if o.bufCap > bound || o.maxAsk > bound || o.maxData > bound {
			r.Failf("reader buffered more than 4*max+64KiB")
			r.Detailf("partition %d bufCap=%d maxAsk=%d pktcap=%d max=%d", i, o.bufCap, o.maxAsk, o.maxData, effMax)
			return
		}
	}
	if want.DontCare {
		// either verdict is acceptable for the tail, but the packets before it are fixed
		r.Label("dontcare")
		for i, o := range outs {
			if len(o.pkts) < len(want.Packets) || !samePackets(o.pkts[:len(want.Packets)], want.Packets) {
				r.Failf("packets before a don't-care tail differ from the reference")
				r.Detailf("partition %d got %s want %s", i, descPackets(o.pkts), descPackets(want.Packets))
				return
			}
		}
		r.Key = keyOf(data, c)
		return
	}
	for i, o := range outs {
		if !samePackets(o.pkts, want.Packets) {
			r.Failf("reassembled packets differ from the reference reassembly")
			r.Detailf("partition %d (%+v) max=%d\n got  %s\n want %s\n events %v err=%v", i, c.Parts[i], max, descPackets(o.pkts), descPackets(want.Packets), want.Events, o.err)
			return
		}
		if o.class != wantClass {
			r.Failf("first error class %s, reference says %s", o.class, wantClass)
			r.Detailf("partition %d (%+v) max=%d err=%v events=%v stream=%x", i, c.Parts[i], max, o.err, want.Events, clip(data))
			return
		}
	}
	// metamorphic (redundant with the reference but independent of it): all partitions agree
	for i := 1; i < len(outs); i++ {
		if !samePackets(outs[0].pkts, outs[i].pkts) || outs[0].class != outs[i].class {
			r.Failf("result depends on how the stream is split into reads")
			return
		}
	}
	multi := false
	for _, e := range want.Events {
		if e == "continuation" || e == "discard_unfinished" || e == "malformed" || e == "id_backwards" || e == "kind_change" || e == "oversize_packet" || e == "oversize_tail" || e == "truncated_tail" {
			multi = true
		}
	}
	differ := false
	for i := 1; i < len(c.Parts); i++ {
		if fmt.Sprint(c.Parts[i]) != fmt.Sprint(c.Parts[0]) {
			differ = true
		}
	}
	r.NonTrivial = len(want.Packets)+boolInt(want.Protocol) >= 2 && multi && differ
	if len(want.Packets) >= 2 {
		r.Label("packets_2plus")
	}
	r.Label("class_" + wantClass)
	r.Key = keyOf(data, c)
	return
}

func boolInt(b bool) int {
	if b {
		return 1
	}
	return 0
}

func clip(b []byte) []byte {
	if len(b) > 300 {
		return b[:300]
	}
	return b
}

func keyOf(data []byte, c c09Case) string {
	h := fnv.New64a()
	h.Write(data)
	return fmt.Sprintf("%x/%d/%v", h.Sum64(), c.Max, c.Parts)
}

var genPartition = rapid.Custom(func(t *rapid.T) partition {
	var p partition
	switch rapid.IntRange(0, 5).Draw(t, "style") {
	case 0: // byte by byte
		p.Cuts = []int{1}
	case 1: // everything at once
		p.Cuts = nil
	case 2, 3:
		p.Cuts = rapid.SliceOfN(rapid.IntRange(1, 40), 1, 8).Draw(t, "cuts")
	case 4:
		p.Cuts = rapid.SliceOfN(rapid.SampledFrom([]int{1, 2, 3, 4, 5, 7, 100, 4095, 4096, 4097, 0}), 1, 6).Draw(t, "cuts")
	default:
		p.Cuts = []int{rapid.IntRange(1, 5000).Draw(t, "cut")}
	}
	if rapid.IntRange(0, 3).Draw(t, "emp") == 0 {
		p.Empties = rapid.SliceOfN(rapid.IntRange(0, 98), 1, 4).Draw(t, "empties")
	}
	p.ErrWith = rapid.Bool().Draw(t, "errwith")
	return p
})

func genC09() *rapid.Generator[c09Case] {
	return rapid.Custom(func(t *rapid.T) c09Case {
		var c c09Case
		c.Max = rapid.SampledFrom([]int{1, 2, 5, 16, 64, 100, 500, 1000, 4000, 5000, 20000, 0}).Draw(t, "max")
		eff := c.Max
		if eff == 0 {
			eff = 4 << 20
		}
		// a script of packets with a current id that moves forward; hostile steps are mixed in.
		s, m := uint64(1), uint64(1)
		if rapid.IntRange(0, 9).Draw(t, "highids") == 0 {
			s = rapid.SampledFrom([]uint64{1, 2, 1<<64 - 2, 1<<64 - 1, 1 << 63}).Draw(t, "s0")
			m = rapid.SampledFrom([]uint64{1, 1<<64 - 2, 1<<64 - 1, 1 << 32}).Draw(t, "m0")
		}
		n := rapid.IntRange(1, 8).Draw(t, "npkts")
		for i := 0; i < n; i++ {
			kind := uint8(rapid.IntRange(0, 9).Draw(t, "kind"))
			step := rapid.IntRange(0, 19).Draw(t, "step")
			nfr := rapid.IntRange(1, 4).Draw(t, "nfr")
			sizeMode := rapid.IntRange(0, 9).Draw(t, "szmode")
			total := 0
			for j := 0; j < nfr; j++ {
				var sz int
				switch {
				case sizeMode <= 5:
					hi := 30
					if eff/nfr < hi {
						hi = eff / nfr
					}
					sz = rapid.IntRange(0, hi).Draw(t, "sz")
				case sizeMode <= 7: // around max
					sz = rapid.SampledFrom([]int{eff/nfr - 1, eff / nfr, eff/nfr + 1, eff - total, eff - total + 1}).Draw(t, "sz")
				default:
					sz = rapid.IntRange(0, 600).Draw(t, "sz")
				}
				if sz < 0 {
					sz = 0
				}
				if sz > 30000 {
					sz = 30000
				}
				total += sz
				data := make([]byte, sz)
				for k := range data {
					data[k] = byte(int(s)*31 + int(m)*7 + j + k)
				}
				f := frameSpec{Frame: ref.Frame{Stream: s, Message: m, Kind: kind, Done: j == nfr-1, Data: data}}
				f.Control = rapid.IntRange(0, 7).Draw(t, "ctl") == 0
				if rapid.IntRange(0, 15).Draw(t, "pad") == 0 {
					f.PadS, f.PadM, f.PadL = rapid.IntRange(0, 10).Draw(t, "ps"), rapid.IntRange(0, 10).Draw(t, "pm"), rapid.IntRange(0, 10).Draw(t, "pl")
				}
				// hostile steps
				switch {
				case step == 0 && j > 0: // kind change inside a packet
					f.Kind = kind + 1
				case step == 1 && j == nfr-1: // forget the done flag: next packet discards this one
					f.Done = false
				case step == 2 && j == 0 && i > 0: // id goes backwards
					if rapid.Bool().Draw(t, "backstream") && s > 1 {
						f.Stream = s - 1
					} else if m > 1 {
						f.Message = m - 1
					}
				case step == 3 && j == 0 && i > 0: // reuse the id just completed
					f.Message = m - 1
				}
				c.Frames = append(c.Frames, f)
			}
			// advance the id
			switch rapid.IntRange(0, 5).Draw(t, "adv") {
			case 0:
				s, m = s+1, 1
			case 1:
				m += uint64(rapid.IntRange(1, 300).Draw(t, "skip"))
			case 2:
				s, m = s+uint64(rapid.IntRange(1, 1000).Draw(t, "sskip")), uint64(rapid.IntRange(0, 3).Draw(t, "m"))
			default:
				m++
			}
		}
		switch rapid.IntRange(0, 7).Draw(t, "tail") {
		case 0: // garbage
			c.Tail = rapid.SliceOfN(rapid.SampledFrom([]byte{0x00, 0x01, 0x7f, 0x80, 0xff}), 1, 30).Draw(t, "garbage")
		case 1: // truncated valid frame
			f := ref.AppendFrame(nil, ref.Frame{Stream: s, Message: m, Kind: 2, Done: true, Data: make([]byte, rapid.IntRange(0, 50).Draw(t, "tl"))})
			c.Tail = f[:rapid.IntRange(0, len(f)-1).Draw(t, "cut")]
		case 2: // a frame declaring far more than max that never completes
			hdr := []byte{2 << 1}
			hdr = ref.AppendUvarint(hdr, s)
			hdr = ref.AppendUvarint(hdr, m)
			hdr = ref.AppendUvarint(hdr, rapid.SampledFrom([]uint64{1 << 40, 1<<64 - 1, uint64(eff) + 1, uint64(eff) * 3}).Draw(t, "decl"))
			fill := rapid.SampledFrom([]int{0, 10, eff, eff + 20, eff + 28, eff + 29, eff + 40, 2*eff + 100}).Draw(t, "fill")
			if fill > 60000 {
				fill = 60000
			}
			c.Tail = append(hdr, make([]byte, fill)...)
		}
		np := rapid.IntRange(2, 3).Draw(t, "nparts")
		for i := 0; i < np; i++ {
			c.Parts = append(c.Parts, genPartition.Draw(t, "part"))
		}
		return c
	})
}

func TestC09Reassembly(t *testing.T) {
	pbt.Check(t, pbt.Prop[c09Case]{ID: "C09", Name: "reassembly", Gen: pbt.G(genC09()), Run: func(c c09Case) pbt.Result {
		r := runC09(c)
		r.Sample = sampleC09(c)
		return r
	}})
}

func sampleC09(c c09Case) any {
	var fr []string
	for _, f := range c.Frames {
		fr = append(fr, fmt.Sprintf("s%d m%d k%d done=%v ctl=%v len=%d pad=%d/%d/%d", f.Stream, f.Message, f.Kind, f.Done, f.Control, len(f.Data), f.PadS, f.PadM, f.PadL))
	}
	return map[string]any{"max": c.Max, "frames": fr, "tail_len": len(c.Tail), "partitions": c.Parts}
}

// ---- ErrNoProgress and memory bound on an endless hostile stream -----------------------

type hostileCase struct {
	Max      int
	Declared uint64
	Chunk    int
	Prelude  int // valid small packets before the hostile frame
}

// endless serves a prelude, then a frame header declaring Declared bytes, then zeros forever.
type endless struct {
	head     []byte
	chunk    int
	consumed int
	maxAsk   int
	giveUp   int // the harness stops feeding after this many bytes (the verdict is then a violation, not a hang)
}

func (e *endless) Read(p []byte) (int, error) {
	if len(p) > e.maxAsk {
		e.maxAsk = len(p)
	}
	if e.giveUp > 0 && e.consumed > e.giveUp {
		return 0, io.ErrUnexpectedEOF
	}
	n := e.chunk
	if n <= 0 || n > len(p) {
		n = len(p)
	}
	if len(e.head) > 0 {
		if n > len(e.head) {
			n = len(e.head)
		}
		copy(p, e.head[:n])
		e.head = e.head[n:]
	} else {
		for i := 0; i < n; i++ {
			p[i] = 0
		}
	}
	e.consumed += n
	return n, nil
}

func runHostile(c hostileCase) (r pbt.Result) {
	eff := c.Max
	if eff == 0 {
		eff = 4 << 20
	}
	var head []byte
	for i := 0; i < c.Prelude; i++ {
		head = ref.AppendFrame(head, ref.Frame{Stream: 1, Message: uint64(i + 1), Kind: 2, Done: true, Data: []byte{byte(i)}})
	}
	head = append(head, 2<<1)
	head = ref.AppendUvarint(head, 7)
	head = ref.AppendUvarint(head, 1)
	head = ref.AppendUvarint(head, c.Declared)
	bound := 4*eff + 64<<10
	e := &endless{head: head, chunk: c.Chunk, giveUp: 2*bound + len(head)}
	rd := drpcwire.NewReaderWithOptions(e, drpcwire.ReaderOptions{MaximumBufferSize: c.Max})
	got := 0
	for {
		_, err := rd.ReadPacket()
		if rd.VerifBufCap() > bound || e.maxAsk > bound {
			r.Failf("reader buffered more than 4*max+64KiB on an endless hostile frame")
			r.Detailf("bufCap=%d maxAsk=%d consumed=%d max=%d", rd.VerifBufCap(), e.maxAsk, e.consumed, eff)
			return
		}
		if err != nil {
			if !drpc.ProtocolError.Has(err) {
				r.Failf("endless oversized frame did not end in a protocol error")
				r.Detailf("%v", err)
			}
			break
		}
		got++
		if got > c.Prelude {
			r.Failf("reader produced a packet out of an unfinished oversized frame")
			return
		}
	}
	if got != c.Prelude {
		r.Failf("valid packets before the hostile frame were lost")
		r.Detailf("got %d want %d", got, c.Prelude)
		return
	}
	if e.consumed-len(head) > bound {
		r.Failf("reader consumed more than 4*max+64KiB of an oversized frame before rejecting it")
		r.Detailf("consumed=%d max=%d", e.consumed, eff)
		return
	}
	r.NonTrivial = true
	r.Label(fmt.Sprintf("chunk_%d", bitsLen(c.Chunk)))
	r.Key = fmt.Sprint(c)
	return
}

func bitsLen(n int) int {
	k := 0
	for n > 0 {
		k++
		n >>= 1
	}
	return k
}

func TestC09Hostile(t *testing.T) {
	gen := rapid.Custom(func(t *rapid.T) hostileCase {
		return hostileCase{
			Max:      rapid.SampledFrom([]int{1, 64, 1000, 4096, 70000, 1 << 20, 0}).Draw(t, "max"),
			Declared: rapid.SampledFrom([]uint64{1 << 40, 1<<64 - 1, 1 << 63, 1 << 32, 1 << 23}).Draw(t, "decl"),
			Chunk:    rapid.SampledFrom([]int{1, 7, 100, 4096, 65536, 0}).Draw(t, "chunk"),
			Prelude:  rapid.IntRange(0, 5).Draw(t, "prelude"),
		}
	})
	pbt.Check(t, pbt.Prop[hostileCase]{ID: "C09", Name: "hostile", Gen: pbt.G(gen), Run: runHostile})
}

// ---- >= 100 empty reads in a row: io.ErrNoProgress, classed internal --------------------

type stallCase struct {
	Prelude int
	Empties int
}

func runStall(c stallCase) (r pbt.Result) {
	var data []byte
	for i := 0; i < c.Prelude; i++ {
		data = ref.AppendFrame(data, ref.Frame{Stream: 1, Message: uint64(i + 1), Kind: 2, Done: true, Data: []byte{9}})
	}
	// deliver everything, then only empty reads
	cr := &chunkReader{data: data, cuts: []int{3}}
	stall := &stallReader{inner: cr, empties: c.Empties}
	rd := drpcwire.NewReader(stall)
	got := 0
	for {
		_, err := rd.ReadPacket()
		if err != nil {
			if c.Empties >= 100 {
				if !errors.Is(err, io.ErrNoProgress) || !drpc.InternalError.Has(err) {
					r.Failf("100 empty reads in a row did not produce ErrNoProgress")
					r.Detailf("%v", err)
				}
			} else if c.Empties == 99 {
				// 99 empty reads followed by (0, err) are 100 reads without progress: either answer is acceptable
			} else if !errors.Is(err, errFinal) {
				r.Failf("fewer than 100 empty reads changed the outcome")
				r.Detailf("%v", err)
			}
			break
		}
		got++
	}
	if got != c.Prelude {
		r.Failf("packets lost around empty reads")
	}
	r.NonTrivial = c.Empties >= 90
	r.Label(fmt.Sprintf("empties_ge100_%v", c.Empties >= 100))
	return
}

type stallReader struct {
	inner   *chunkReader
	empties int
	served  int
}

func (s *stallReader) Read(p []byte) (int, error) {
	if len(s.inner.data) > 0 {
		return s.inner.Read(p)
	}
	if s.served < s.empties {
		s.served++
		return 0, nil
	}
	return 0, errFinal
}

func TestC09Stall(t *testing.T) {
	gen := rapid.Custom(func(t *rapid.T) stallCase {
		return stallCase{Prelude: rapid.IntRange(0, 4).Draw(t, "prelude"), Empties: rapid.SampledFrom([]int{0, 1, 50, 98, 99, 100, 101, 150, 250}).Draw(t, "empties")}
	})
	pbt.Check(t, pbt.Prop[stallCase]{ID: "C09", Name: "stall", Gen: pbt.G(gen), Run: runStall})
}

// TestC13ReaderBytes: arbitrary (not frame-structured) byte strings through the reader under
// several chunkings; same oracle as C09 (the reference handles any bytes).
func TestC13ReaderBytes(t *testing.T) {
	gen := rapid.Custom(func(t *rapid.T) c09Case {
		var c c09Case
		c.Max = rapid.SampledFrom([]int{1, 16, 100, 5000, 0}).Draw(t, "max")
		switch rapid.IntRange(0, 2).Draw(t, "kind") {
		case 0:
			c.Tail = rapid.SliceOfN(rapid.Byte(), 0, 200).Draw(t, "raw")
		case 1:
			n := rapid.IntRange(0, 60).Draw(t, "n")
			c.Tail = make([]byte, n)
			for i := range c.Tail {
				c.Tail[i] = rapid.SampledFrom([]byte{0x00, 0x01, 0x02, 0x03, 0x04, 0x05, 0x7f, 0x80, 0xff, 0x81}).Draw(t, "b")
			}
		default: // a few valid frames, then bit flips anywhere
			base := genC09().Draw(t, "base")
			c.Max = base.Max
			c.Tail = base.bytes()
			for k := rapid.IntRange(1, 3).Draw(t, "flips"); k > 0 && len(c.Tail) > 0; k-- {
				i := rapid.IntRange(0, len(c.Tail)-1).Draw(t, "pos")
				c.Tail[i] ^= 1 << uint(rapid.IntRange(0, 7).Draw(t, "bit"))
			}
		}
		for i := 0; i < 2; i++ {
			c.Parts = append(c.Parts, genPartition.Draw(t, "part"))
		}
		return c
	})
	pbt.Check(t, pbt.Prop[c09Case]{ID: "C13", Name: "reader_bytes", Gen: pbt.G(gen), Run: func(c c09Case) pbt.Result {
		r := runC09(c)
		r.NonTrivial = len(c.Tail) >= 4
		r.Sample = map[string]any{"max": c.Max, "bytes": fmt.Sprintf("%x", clip(c.Tail)), "partitions": c.Parts}
		return r
	}})
}
