// Package sim is the director engine (E3): a deterministic simulation of a whole
// drpc connection in which the harness owns the transport, the application
// goroutines and — through verif-tagged scheduling points — chosen internal
// steps of the library, so that a schedule is an ordinary generated value.
package sim

import (
	"bytes"
	"runtime"
	"strconv"
	"strings"
	"time"
)

// durable wait reasons: a goroutine in one of these states can only be woken by
// another goroutine (the scenarios use no timers and no network). Plain
// "semacquire" is NOT durable: a goroutine can sit in semacquire(&worldsema)
// merely because our own stack snapshot holds the world stopped.
var durable = map[string]bool{
	"chan receive": true, "chan send": true, "select": true, "sync.Cond.Wait": true,
	"sync.Mutex.Lock": true, "sync.RWMutex.Lock": true, "sync.RWMutex.RLock": true,
	"sync.WaitGroup.Wait": true, "select (no cases)": true,
	"chan receive (nil chan)": true, "chan send (nil chan)": true,
}

var stackBuf = make([]byte, 8<<20)

// GInfo is one goroutine of a snapshot.
type GInfo struct {
	ID     int64
	State  string
	Frames string
}

// Snapshot returns all goroutines (the caller first).
func Snapshot() []GInfo {
	n := runtime.Stack(stackBuf, true)
	var out []GInfo
	for _, blk := range bytes.Split(stackBuf[:n], []byte("\n\n")) {
		s := string(blk)
		if !strings.HasPrefix(s, "goroutine ") {
			continue
		}
		hdr := s
		if nl := strings.IndexByte(s, '\n'); nl >= 0 {
			hdr = s[:nl]
		}
		ob, cb := strings.IndexByte(hdr, '['), strings.LastIndexByte(hdr, ']')
		if ob < 0 || cb < ob {
			continue
		}
		st := hdr[ob+1 : cb]
		if c := strings.IndexByte(st, ','); c >= 0 {
			st = st[:c]
		}
		id, _ := strconv.ParseInt(hdr[10:ob-1], 10, 64)
		out = append(out, GInfo{ID: id, State: st, Frames: s})
	}
	return out
}

// SpinCap is the panic value raised when quiescence is not reached in time; the
// driver maps it to "inconclusive", never to a violation.
type SpinCap struct{ Dump string }

// Inconclusive marks the panic as a harness-side failure for pbt.
func (s SpinCap) Inconclusive() string {
	return "quiescence not reached within 20s; goroutines not durably blocked:\n" + s.Dump
}

// foreign goroutines (test framework, other packages' background workers) are
// ignored when they are not durably blocked only if they match these frames.
var ignoreFrames = []string{"testing.(*M).", "os/signal.", "testing.runFuzzing", "testing.(*F)", "monkit/v3.(*ticker).run"}

// WaitQuiescent spins until every goroutine but the caller is durably blocked.
func WaitQuiescent() []GInfo {
	start := time.Now()
	for i := 0; ; i++ {
		gs := Snapshot()
		ok := true
		for j, g := range gs {
			if j == 0 || durable[g.State] {
				continue
			}
			// Go 1.23 reports a goroutine parked in WaitGroup.Wait as plain "semacquire"; that wait is
			// durable (only wg.Done from another goroutine ends it), unlike the runtime-internal
			// semaphores that share the state name.
			if g.State == "semacquire" && strings.Contains(g.Frames, "sync.(*WaitGroup).Wait(") {
				continue
			}
			ign := false
			for _, f := range ignoreFrames {
				if strings.Contains(g.Frames, f) {
					ign = true
				}
			}
			if !ign {
				ok = false
				break
			}
		}
		if ok {
			return gs
		}
		runtime.Gosched()
		if i%256 == 255 && time.Since(start) > 20*time.Second {
			var sb strings.Builder
			for _, g := range gs {
				if !durable[g.State] {
					sb.WriteString(g.Frames + "\n\n")
				}
			}
			panic(SpinCap{sb.String()})
		}
	}
}

// GoID returns the calling goroutine's id.
func GoID() int64 {
	var b [64]byte
	n := runtime.Stack(b[:], false)
	s := string(b[:n]) // "goroutine 123 [running]:..."
	s = s[len("goroutine "):]
	if i := strings.IndexByte(s, ' '); i > 0 {
		id, _ := strconv.ParseInt(s[:i], 10, 64)
		return id
	}
	return 0
}

// DrpcGoroutines returns the goroutines (other than the caller) with a drpc frame on their stack.
func DrpcGoroutines(gs []GInfo) (out []GInfo) {
	for _, g := range gs[1:] {
		if strings.Contains(g.Frames, "storj.io/drpc/") {
			out = append(out, g)
		}
	}
	return out
}
