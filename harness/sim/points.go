package sim

import (
	"sync"

	"storj.io/drpc/drpcdebug"
)

// Arrival is a goroutine parked at a scheduling point.
type Arrival struct {
	Name string
	N    int // arrival number of this point name within the world
	GID  int64
	ch   chan struct{}
}

// Points is the per-world registry of enabled scheduling points.
type Points struct {
	mu      sync.Mutex
	enabled map[string]bool
	all     bool
	counts  map[string]int
	parked  []*Arrival
	off     bool
	Hits    map[string]int // arrivals per point name (parked or not), for coverage
	// Limit bounds how many arrivals may park in total (0 = unlimited): keeps histories short.
	Limit       int
	parkedTotal int
}

func NewPoints(names []string) *Points {
	p := &Points{enabled: map[string]bool{}, counts: map[string]int{}, Hits: map[string]int{}}
	for _, n := range names {
		if n == "*" {
			p.all = true
		}
		p.enabled[n] = true
	}
	return p
}

// Install makes p the process-wide hook target.
func (p *Points) Install() {
	drpcdebug.SetPointHook(p.hit)
}

// Uninstall removes the hook and releases everything parked.
func (p *Points) Uninstall() {
	p.mu.Lock()
	p.off = true
	parked := p.parked
	p.parked = nil
	p.mu.Unlock()
	for _, a := range parked {
		close(a.ch)
	}
	drpcdebug.SetPointHook(nil)
}

func (p *Points) hit(name string) {
	p.mu.Lock()
	p.Hits[name]++
	if p.off || !(p.all || p.enabled[name]) || (p.Limit > 0 && p.parkedTotal >= p.Limit) {
		p.mu.Unlock()
		return
	}
	p.counts[name]++
	p.parkedTotal++
	a := &Arrival{Name: name, N: p.counts[name], GID: GoID(), ch: make(chan struct{})}
	p.parked = append(p.parked, a)
	p.mu.Unlock()
	<-a.ch
}

// Parked lists current arrivals, oldest first.
func (p *Points) Parked() []*Arrival {
	p.mu.Lock()
	defer p.mu.Unlock()
	return append([]*Arrival(nil), p.parked...)
}

// Release lets the arrival continue.
func (p *Points) Release(a *Arrival) {
	p.mu.Lock()
	for i, x := range p.parked {
		if x == a {
			p.parked = append(p.parked[:i:i], p.parked[i+1:]...)
			p.mu.Unlock()
			close(a.ch)
			return
		}
	}
	p.mu.Unlock()
}

// HitCount returns how many times the named point has been reached so far.
func (p *Points) HitCount(name string) int {
	p.mu.Lock()
	defer p.mu.Unlock()
	return p.Hits[name]
}

// Hit lets harness code reach a (harness-side) scheduling point.
func (p *Points) Hit(name string) { p.hit(name) }
