package sim

import (
	"encoding/binary"
	"fmt"
	"hash/crc32"

	"storj.io/drpc"
)

// RawEnc passes []byte messages through unchanged. Unmarshal contains a
// harness-side scheduling point so a consumer can be held while it still
// borrows the stream's read buffer.
type RawEnc struct{ W *World }

func (RawEnc) Marshal(msg drpc.Message) ([]byte, error) { return *(msg.(*[]byte)), nil }
func (e RawEnc) Unmarshal(buf []byte, msg drpc.Message) error {
	if e.W != nil {
		e.W.noteDelivery(buf)
		t0, d0, s0, ok0 := PayloadInfo(buf)
		if e.W.Points != nil {
			e.W.Points.hit("harness.Unmarshal.holding")
		}
		// the buffer is the decoder's until Unmarshal returns: whatever happened to the stream meanwhile, it must
		// still hold the message it was called with
		if t1, d1, s1, ok1 := PayloadInfo(buf); ok0 && (!ok1 || t1 != t0 || d1 != d0 || s1 != s0) {
			e.W.Violate("the bytes handed to Unmarshal changed while it was decoding them (message seq %d of tag %d)", s0, t0)
		}
	}
	*(msg.(*[]byte)) = append([]byte(nil), buf...)
	return nil
}

// AppendEnc is RawEnc plus the optional MarshalAppend method.
type AppendEnc struct{ RawEnc }

func (AppendEnc) MarshalAppend(buf []byte, msg drpc.Message) ([]byte, error) {
	return append(buf, *(msg.(*[]byte))...), nil
}

// FailEnc rejects every message it is asked to decode (C10: undecodable request).
type FailEnc struct {
	Msg string
	W   *World // when set, the (intact) message it was shown counts as delivered
}

func (FailEnc) Marshal(msg drpc.Message) ([]byte, error) { return *(msg.(*[]byte)), nil }
func (e FailEnc) Unmarshal(buf []byte, msg drpc.Message) error {
	if e.W != nil {
		e.W.noteDelivery(buf)
	}
	return fmt.Errorf("%s", e.Msg)
}

// BadMarshalEnc cannot encode anything (a request the application's encoding rejects, e.g. a proto3 string
// field holding invalid UTF-8).
type BadMarshalEnc struct{}

func (BadMarshalEnc) Marshal(msg drpc.Message) ([]byte, error) {
	return nil, fmt.Errorf("harness: cannot encode")
}
func (BadMarshalEnc) Unmarshal(buf []byte, msg drpc.Message) error {
	*(msg.(*[]byte)) = append([]byte(nil), buf...)
	return nil
}

const payloadOverhead = 17

// MakePayload builds a self-describing message body: tag(4) dir(1) seq(4) len(4) body crc(4).
func MakePayload(tag uint32, dir byte, seq uint32, size int) []byte {
	b := make([]byte, 13, 13+size+4)
	binary.BigEndian.PutUint32(b[0:], tag)
	b[4] = dir
	binary.BigEndian.PutUint32(b[5:], seq)
	binary.BigEndian.PutUint32(b[9:], uint32(size))
	x := tag*2654435761 + uint32(dir)*97 + seq*40503
	for i := 0; i < size; i++ {
		x = x*1664525 + 1013904223
		b = append(b, byte(x>>24))
	}
	var c [4]byte
	binary.BigEndian.PutUint32(c[:], crc32.ChecksumIEEE(b))
	return append(b, c[:]...)
}

// PayloadInfo decodes the header of a payload (ok=false if it is not one).
func PayloadInfo(b []byte) (tag uint32, dir byte, seq uint32, ok bool) {
	if len(b) < payloadOverhead {
		return 0, 0, 0, false
	}
	if crc32.ChecksumIEEE(b[:len(b)-4]) != binary.BigEndian.Uint32(b[len(b)-4:]) {
		return 0, 0, 0, false
	}
	if int(binary.BigEndian.Uint32(b[9:])) != len(b)-payloadOverhead {
		return 0, 0, 0, false
	}
	return binary.BigEndian.Uint32(b[0:]), b[4], binary.BigEndian.Uint32(b[5:]), true
}

// CheckPayload verifies that b is exactly the payload (tag, dir, seq).
func CheckPayload(b []byte, tag uint32, dir byte, seq uint32) error {
	gt, gd, gs, ok := PayloadInfo(b)
	if !ok {
		return fmt.Errorf("corrupt payload (len %d)", len(b))
	}
	if gt != tag || gd != dir || gs != seq {
		return fmt.Errorf("got payload tag=%d dir=%c seq=%d, want tag=%d dir=%c seq=%d", gt, gd, gs, tag, dir, seq)
	}
	return nil
}
