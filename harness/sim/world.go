package sim

import (
	"context"
	"errors"
	"fmt"
	"sort"
	"strings"
	"sync"
	"sync/atomic"
	"time"

	"storj.io/drpc"
	"storj.io/drpc/drpcconn"
	"storj.io/drpc/drpcmanager"
	"storj.io/drpc/drpcmetadata"
	"storj.io/drpc/drpcserver"
	"storj.io/drpc/drpcstream"
	"storj.io/drpc/drpcwire"
)

// Config is the drawn configuration of a connection.
type Config struct {
	Soft         bool
	SplitSize    int
	WriterBuf    int
	ManualFlush  bool
	StreamMaxBuf int
	ReaderMax    int
	// AppendEnc: the encoding also implements the optional MarshalAppend interface (the library then marshals
	// straight into its reusable write buffers instead of copying the result of Marshal)
	AppendEnc bool
	// RawAPI: the scripted sends and receives use the stream's raw interface (RawWrite + RawFlush, RawRecv) instead
	// of MsgSend / MsgRecv. Only for worlds with at most one receiver per side and stream (the order of delivery is
	// then noted after RawRecv returned).
	RawAPI bool
	Stats  bool // both ends collect per-rpc statistics (CollectStats)
	// NoInactivity: Options.InactivityTimeout is set to a negative value, the documented way of saying "no
	// timeout" (the zero value means the same; no timer is ever armed in this harness)
	NoInactivity bool
	Points       []string // enabled scheduling points ("*" = all)
	PointLimit   int
	NoServer     bool // the B end is left to the test (wire-level peer)
	NoClient     bool // the A end is left to the test (wire-level peer)
	// Handler, when set, replaces the scripted handler on the server side (not serialised).
	Handler drpc.Handler `json:"-"`
}

// Step is one scripted API call of an actor.
type Step struct {
	Op   string // send recv closesend close cancel flush drain ret reterr connclose
	Size int
}

// Prog is the script of one actor on a stream.
type Prog struct{ Steps []Step }

// RPC describes one call: the client side and the handler side.
type RPC struct {
	Unary   bool
	ReqSize int
	Meta    [][2]string // metadata attached to the call's context
	Client  Prog        // main client actor (after NewStream); for unary: optional single "cancel" step run concurrently
	CSubs   []Prog      // additional client goroutines on the same stream
	Handler Prog        // main handler actor
	HSubs   []Prog      // additional handler goroutines on the same stream
	// NoFinalClose: the client main actor does not Close the stream after its script.
	NoFinalClose bool
	// CancelWhenDone: the client cancels the call's context once its script is over (the usual
	// `defer cancel()` of applications).
	CancelWhenDone bool
	// CancelImmediately: like CancelWhenDone but without yielding to the director first, exactly as
	// `defer cancel()` runs right after Invoke / Close returned.
	CancelImmediately bool
	ErrMsg            string // reterr text ("" = default)
	ErrCode           uint64
	// BadRequest: a unary call whose request the encoding cannot marshal (Invoke fails before anything of
	// the call except, possibly, its metadata and a close was written).
	BadRequest bool
	// BadResponse: a unary call whose response the encoding cannot unmarshal (the request goes out, the handler
	// answers, Invoke fails while decoding the answer).
	BadResponse bool
	// Deadline: the call's context ends the way an expired deadline does (Err() == context.DeadlineExceeded)
	// instead of by cancellation. No timer is involved: the harness ends it at the step it chooses.
	Deadline bool
}

const (
	stInit = iota
	stWait // waiting for a grant
	stCall // inside a call (possibly blocked in drpc)
	stDone
)

// Actor is a harness-owned application goroutine advancing one API call per grant.
type Actor struct {
	Name  string
	mu    sync.Mutex
	state int
	what  string
	grant chan bool
	gid   int64
	Log   []string
	w     *World
}

func (a *Actor) set(st int, what string) { a.mu.Lock(); a.state, a.what = st, what; a.mu.Unlock() }

// State returns the actor's state and the op it waits for / is inside.
func (a *Actor) State() (int, string) { a.mu.Lock(); defer a.mu.Unlock(); return a.state, a.what }

// await parks until the director grants the next step; false means abort the script.
func (a *Actor) await(what string) bool {
	a.w.Points.hit("harness.opBoundary")
	a.set(stWait, what)
	ok := <-a.grant
	if ok {
		a.set(stCall, what)
	}
	return ok
}

func (a *Actor) logf(f string, args ...any) {
	a.mu.Lock()
	a.Log = append(a.Log, fmt.Sprintf(f, args...))
	a.mu.Unlock()
}

// OpRec is one API call with logical begin/end stamps.
type OpRec struct {
	Actor string
	Op    string
	RPC   int
	Start int64
	End   int64 // 0 while in flight
	Err   error
	Seq   uint32 // payload sequence number of a send / recv
	Sub   int    // sender index
	Size  int
	Side  byte // 'c' or 's'
	// AcceptedAt is the number of bytes the sender's transport had taken when the call returned.
	AcceptedAt int
}

// World is one simulated connection with its actors.
type World struct {
	Cfg    Config
	RPCs   []RPC
	Clock  int64
	A, B   *End
	Conn   *drpcconn.Conn
	Points *Points

	srvDone chan struct{}
	srvErr  error
	sCancel func()

	mu        sync.Mutex
	actors    []*Actor
	Viol      []string
	Ops       []*OpRec
	Trace     []string
	streams   map[int]drpc.Stream
	cancels   map[int]func()
	HStarted  map[string]int
	HReturned map[string]int
	HMeta     map[int]map[string]string
	HCtxDone  map[int]bool // handler's stream context observed done at return
	hstreams  map[int]drpc.Stream
	Recv      map[string][]uint32 // "<rpc>/<side>/<sub>" -> seqs received in order
	ProbeOK   bool
	ProbeErr  error
	probes    int
	Enc       drpc.Encoding
	drained   bool
	inherited map[int64]bool
}

func (w *World) now() int64 { return atomic.AddInt64(&w.Clock, 1) }

// Violate records an oracle violation noticed inside an actor (stable text).
func (w *World) Violate(f string, args ...any) {
	w.mu.Lock()
	w.Viol = append(w.Viol, fmt.Sprintf(f, args...))
	w.mu.Unlock()
}

func (w *World) newActor(name string) *Actor {
	a := &Actor{Name: name, grant: make(chan bool), w: w, gid: GoID()}
	w.mu.Lock()
	w.actors = append(w.actors, a)
	w.mu.Unlock()
	return a
}

// Actors returns the actors sorted by name (stable order for the choice alphabet).
func (w *World) Actors() []*Actor {
	w.mu.Lock()
	as := append([]*Actor(nil), w.actors...)
	w.mu.Unlock()
	sort.SliceStable(as, func(i, j int) bool { return as[i].Name < as[j].Name })
	return as
}

// Actor finds an actor by name.
func (w *World) Actor(name string) *Actor {
	for _, a := range w.Actors() {
		if a.Name == name {
			return a
		}
	}
	return nil
}

// Done reports whether the named actor exists and has finished.
func (w *World) Done(name string) bool {
	if a := w.Actor(name); a != nil {
		st, _ := a.State()
		return st == stDone
	}
	return false
}

// InCall lists actors currently inside a call (name -> op), optionally filtered by prefix.
func (w *World) InCall(prefix string) map[string]string {
	out := map[string]string{}
	for _, a := range w.Actors() {
		if st, what := a.State(); st == stCall && strings.HasPrefix(a.Name, prefix) {
			out[a.Name] = what
		}
	}
	return out
}

func (w *World) beginOp(a *Actor, op string, rpc int) *OpRec {
	r := &OpRec{Actor: a.Name, Op: op, RPC: rpc, Start: w.now()}
	w.mu.Lock()
	w.Ops = append(w.Ops, r)
	w.mu.Unlock()
	return r
}

func (w *World) endOp(r *OpRec, err error) {
	w.mu.Lock()
	r.Err, r.End = err, w.now()
	w.mu.Unlock()
}

// OpsSnapshot returns a copy of the op records.
func (w *World) OpsSnapshot() []OpRec {
	w.mu.Lock()
	defer w.mu.Unlock()
	out := make([]OpRec, len(w.Ops))
	for i, r := range w.Ops {
		out[i] = *r
	}
	return out
}

// ManagerOptions builds the drpcmanager options from the config.
func (c Config) ManagerOptions() drpcmanager.Options {
	var inact time.Duration
	if c.NoInactivity {
		inact = -time.Second
	}
	return drpcmanager.Options{
		InactivityTimeout: inact,
		SoftCancel:        c.Soft,
		WriterBufferSize:  c.WriterBuf,
		Reader:            drpcwire.ReaderOptions{MaximumBufferSize: c.ReaderMax},
		Stream:            drpcstream.Options{SplitSize: c.SplitSize, ManualFlush: c.ManualFlush, MaximumBufferSize: c.StreamMaxBuf},
	}
}

// NewWorld builds the connection: a server (ServeOne on end B) and a client conn on end A.
func NewWorld(cfg Config, rpcs []RPC) *World {
	w := &World{Cfg: cfg, RPCs: rpcs, streams: map[int]drpc.Stream{}, cancels: map[int]func(){}, hstreams: map[int]drpc.Stream{},
		HStarted: map[string]int{}, HReturned: map[string]int{}, HMeta: map[int]map[string]string{}, HCtxDone: map[int]bool{}, Recv: map[string][]uint32{}}
	w.Enc = RawEnc{W: w}
	if cfg.AppendEnc {
		w.Enc = AppendEnc{RawEnc{W: w}}
	}
	// goroutines an earlier (failed) case of this process left behind are not this world's
	w.inherited = map[int64]bool{}
	for _, g := range DrpcGoroutines(Snapshot()) {
		w.inherited[g.ID] = true
	}
	w.Points = NewPoints(cfg.Points)
	w.Points.Limit = cfg.PointLimit
	w.Points.Install()
	w.A, w.B = Pipe(&w.Clock)
	for _, p := range cfg.Points {
		if p == "harness.transport.closing" {
			// a transport whose Close lets go of pending I/O at once but takes a while to finish
			w.A.OnClosing = func() { w.Points.hit("harness.transport.closing") }
			w.B.OnClosing = func() { w.Points.hit("harness.transport.closing") }
		}
	}
	mopts := cfg.ManagerOptions()
	if !cfg.NoServer {
		ctx, cancel := context.WithCancel(context.Background())
		w.sCancel = cancel
		w.srvDone = make(chan struct{})
		var h drpc.Handler = handler{w}
		if cfg.Handler != nil {
			h = cfg.Handler
		}
		srv := drpcserver.NewWithOptions(h, drpcserver.Options{Manager: mopts, CollectStats: cfg.Stats})
		go func() { defer close(w.srvDone); w.srvErr = srv.ServeOne(ctx, w.B) }()
	}
	if !cfg.NoClient {
		w.Conn = drpcconn.NewWithOptions(w.A, drpcconn.Options{Manager: mopts, CollectStats: cfg.Stats})
	}
	return w
}

// ServerDone reports whether ServeOne has returned.
func (w *World) ServerDone() bool {
	if w.srvDone == nil {
		return true
	}
	select {
	case <-w.srvDone:
		return true
	default:
		return false
	}
}

// CancelServer cancels the context given to ServeOne.
func (w *World) CancelServer() {
	if w.sCancel != nil {
		w.sCancel()
	}
}

// Stream returns the client stream of RPC k, if it was created.
func (w *World) Stream(k int) drpc.Stream { w.mu.Lock(); defer w.mu.Unlock(); return w.streams[k] }

// HandlerStream returns the server-side stream of RPC k, if its handler started.
func (w *World) HandlerStream(k int) drpc.Stream {
	w.mu.Lock()
	defer w.mu.Unlock()
	return w.hstreams[k]
}

// CancelRPC cancels the context of client RPC k.
func (w *World) CancelRPC(k int) {
	w.mu.Lock()
	c := w.cancels[k]
	w.mu.Unlock()
	if c != nil {
		c()
	}
}

// rawStream is the raw half of *drpcstream.Stream's interface.
type rawStream interface {
	RawWrite(kind drpcwire.Kind, data []byte) error
	RawFlush() error
	RawRecv() ([]byte, error)
}

// streamScript runs the steps of one actor against a stream. side is 'c' (client: sends
// 'c' payloads, expects 's') or 's'. It returns the handler's return value when a ret /
// reterr step is reached.
func (w *World) streamScript(a *Actor, st drpc.Stream, k int, side byte, sub int, steps []Step) (ret error, returned bool) {
	other := byte('s')
	if side == 's' {
		other = 'c'
	}
	var sseq uint32
	// messages this actor has sent and still holds (an application may keep or re-send them): the library must
	// never write into their memory
	type heldMsg struct {
		b   []byte
		seq uint32
	}
	var held []heldMsg
	var recvd [][]byte
	checkHeld := func() {
		for _, h := range held {
			if err := CheckPayload(h.b, uint32(k)<<8|uint32(sub), side, h.seq); err != nil {
				w.Violate("rpc %d side %c: a message the sender still holds (seq %d) was overwritten: %v", k, side, h.seq, err)
			}
		}
		for _, b := range recvd {
			// what RawRecv handed out is the receiver's: it must stay what it was when later data arrives
			if _, _, _, ok := PayloadInfo(b); !ok {
				w.Violate("rpc %d side %c: a message obtained from RawRecv changed afterwards", k, side)
			}
		}
	}
	defer checkHeld()
	recvOne := func() error {
		var b []byte
		r := w.beginOp(a, "recv", k)
		var err error
		if rs, ok := st.(rawStream); ok && w.Cfg.RawAPI {
			b, err = rs.RawRecv()
			if err == nil {
				w.noteDelivery(b)
				if recvd = append(recvd, b); len(recvd) > 4 {
					recvd = recvd[1:]
				}
				checkHeld()
			}
		} else {
			err = st.MsgRecv(&b, w.Enc)
		}
		if err == nil {
			w.checkRecv(k, other, b, r)
		}
		w.endOp(r, err)
		return err
	}
	for _, s := range steps {
		if !a.await(s.Op) {
			return nil, false
		}
		switch s.Op {
		case "send":
			p := MakePayload(uint32(k)<<8|uint32(sub), side, sseq, s.Size)
			r := w.beginOp(a, "send", k)
			r.Seq, r.Sub, r.Size = sseq, sub, s.Size
			r.Side = side
			sseq++
			var err error
			if rs, ok := st.(rawStream); ok && w.Cfg.RawAPI {
				if err = rs.RawWrite(drpcwire.KindMessage, p); err == nil && !w.Cfg.ManualFlush {
					err = rs.RawFlush()
				}
			} else {
				err = st.MsgSend(&p, w.Enc)
			}
			r.AcceptedAt = w.outOf(side).Total()
			w.endOp(r, err)
			held = append(held, heldMsg{p, sseq - 1})
			if len(held) > 4 {
				held = held[1:]
			}
			checkHeld()
			a.logf("send(%d) -> %v", s.Size, err)
		case "recv":
			err := recvOne()
			a.logf("recv -> %v", err)
		case "sendbad": // a send whose encoding rejects the message: fails, nothing reaches the wire
			p := MakePayload(uint32(k)<<8|uint32(sub), side, 0xffff, 1)
			r := w.beginOp(a, "sendbad", k)
			err := st.MsgSend(&p, BadMarshalEnc{})
			w.endOp(r, err)
			a.logf("sendbad -> %v", err)
		case "recvskip": // a receive whose encoding rejects the (intact) message; the receiver carries on
			var b []byte
			r := w.beginOp(a, "recvskip", k)
			err := st.MsgRecv(&b, FailEnc{Msg: "harness: cannot decode", W: w})
			w.endOp(r, err)
			a.logf("recvskip -> %v", err)
		case "recvbad": // a receive whose encoding rejects the (intact) message
			var b []byte
			r := w.beginOp(a, "recvbad", k)
			err := st.MsgRecv(&b, FailEnc{Msg: "harness: cannot decode"})
			w.endOp(r, err)
			a.logf("recvbad -> %v", err)
			if side == 's' && err != nil {
				return err, true // a handler that cannot decode its input fails with that error
			}
		case "drain":
			n := 0
			for {
				if err := recvOne(); err != nil {
					a.logf("drain -> %v after %d", err, n)
					break
				}
				n++
				if n > 10000 {
					w.Violate("drain did not end")
					break
				}
			}
		case "closesend":
			r := w.beginOp(a, "closesend", k)
			err := st.CloseSend()
			w.endOp(r, err)
			a.logf("closesend -> %v", err)
		case "close":
			r := w.beginOp(a, "close", k)
			err := st.Close()
			w.endOp(r, err)
			a.logf("close -> %v", err)
		case "flush":
			r := w.beginOp(a, "flush", k)
			var err error
			if f, ok := st.(interface{ RawFlush() error }); ok {
				err = f.RawFlush()
			}
			r.Side = side
			r.AcceptedAt = w.outOf(side).Total()
			w.endOp(r, err)
			a.logf("flush -> %v", err)
		case "cancel":
			r := w.beginOp(a, "cancel", k)
			w.CancelRPC(k)
			w.endOp(r, nil)
			a.logf("cancel")
		case "connclose":
			r := w.beginOp(a, "connclose", k)
			err := w.Conn.Close()
			w.endOp(r, err)
			a.logf("connclose -> %v", err)
		case "ret":
			a.logf("return nil")
			return nil, true
		case "reterr":
			a.logf("return err")
			return w.HandlerError(k), true
		}
	}
	return nil, false
}

func (w *World) outOf(side byte) *half {
	if side == 's' {
		return w.B.out
	}
	return w.A.out
}

// HandlerError is the error the handler of RPC k returns on "reterr".
func (w *World) HandlerError(k int) error {
	msg := fmt.Sprintf("herr-%d", k)
	code := uint64(100 + k)
	if k < len(w.RPCs) && w.RPCs[k].ErrMsg != "" {
		msg = w.RPCs[k].ErrMsg
	}
	if k < len(w.RPCs) && w.RPCs[k].ErrCode != 0 {
		code = w.RPCs[k].ErrCode
	}
	return &codedErr{msg, code}
}

type codedErr struct {
	msg  string
	code uint64
}

func (e *codedErr) Error() string { return e.msg }
func (e *codedErr) Code() uint64  { return e.code }

// noteDelivery is called from inside the encoding's Unmarshal, i.e. while the library still
// serialises receivers on the stream, so the order seen here is the delivery order even with
// several concurrent receivers. It checks integrity and per-sender order (no reorder, no duplicate).
func (w *World) noteDelivery(b []byte) {
	tag, dir, seq, ok := PayloadInfo(b)
	if !ok {
		w.Violate("corrupt message delivered (len %d)", len(b))
		return
	}
	if dir == 'p' {
		return // probe echo
	}
	rpc, sub := int(tag>>8), int(tag&0xff)
	key := fmt.Sprintf("%d/%c/%d", rpc, dir, sub)
	w.mu.Lock()
	prev := w.Recv[key]
	if len(prev) > 0 && seq <= prev[len(prev)-1] {
		w.mu.Unlock()
		w.Violate("rpc %d dir %c sender %d: message seq %d delivered after seq %d (reordered or duplicated)", rpc, dir, sub, seq, prev[len(prev)-1])
		return
	}
	w.Recv[key] = append(prev, seq)
	w.mu.Unlock()
}

// checkRecv verifies that a received payload belongs to the receiver's own RPC and direction.
func (w *World) checkRecv(k int, from byte, b []byte, r *OpRec) {
	tag, dir, seq, ok := PayloadInfo(b)
	if !ok {
		w.Violate("rpc %d: corrupt message received (len %d)", k, len(b))
		return
	}
	rpc, sub := int(tag>>8), int(tag&0xff)
	if rpc != k || dir != from {
		w.Violate("rpc %d (expecting dir %c): received a message of rpc %d dir %c", k, from, rpc, dir)
		return
	}
	w.mu.Lock()
	r.Seq, r.Sub, r.Size = seq, sub, len(b)-payloadOverhead
	w.mu.Unlock()
}

type handler struct{ w *World }

func (h handler) HandleRPC(stream drpc.Stream, rpc string) error {
	w := h.w
	w.mu.Lock()
	w.HStarted[rpc]++
	w.mu.Unlock()
	defer func() {
		w.mu.Lock()
		w.HReturned[rpc]++
		w.mu.Unlock()
	}()
	if strings.HasPrefix(rpc, "probe") {
		var b []byte
		if err := stream.MsgRecv(&b, w.Enc); err != nil {
			return err
		}
		return stream.MsgSend(&b, w.Enc)
	}
	var k int
	if _, err := fmt.Sscanf(rpc, "rpc%d", &k); err != nil || k < 0 || k >= len(w.RPCs) {
		return fmt.Errorf("harness: unknown rpc %q", rpc)
	}
	spec := w.RPCs[k]
	md, _ := drpcmetadata.Get(stream.Context())
	cp := map[string]string{}
	for kk, v := range md {
		cp[kk] = v
	}
	w.mu.Lock()
	w.HMeta[k] = cp
	w.hstreams[k] = stream
	w.mu.Unlock()
	a := w.newActor(fmt.Sprintf("h%d", k))
	defer a.set(stDone, "")
	var wg sync.WaitGroup
	for j, sp := range spec.HSubs {
		j, sp := j, sp
		wg.Add(1)
		sa := w.newActorNoGID(fmt.Sprintf("h%d.%d", k, j+1))
		go func() {
			defer wg.Done()
			defer sa.set(stDone, "")
			sa.setGID()
			w.streamScript(sa, stream, k, 's', j+1, sp.Steps)
		}()
	}
	ret, _ := w.streamScript(a, stream, k, 's', 0, spec.Handler.Steps)
	wg.Wait()
	select {
	case <-stream.Context().Done():
		w.mu.Lock()
		w.HCtxDone[k] = true
		w.mu.Unlock()
	default:
	}
	return ret
}

func (w *World) newActorNoGID(name string) *Actor {
	a := &Actor{Name: name, grant: make(chan bool), w: w}
	w.mu.Lock()
	w.actors = append(w.actors, a)
	w.mu.Unlock()
	return a
}

// StartClient launches the client side of RPC k (main actor "c<k>" and its sub-actors).
func (w *World) StartClient(k int) *Actor {
	spec := w.RPCs[k]
	a := w.newActorNoGID(fmt.Sprintf("c%d", k))
	base := context.Background()
	for _, kv := range spec.Meta {
		base = drpcmetadata.Add(base, kv[0], kv[1])
	}
	ctx, cancel := context.WithCancel(base)
	if spec.Deadline {
		ec := newEndCtx(base)
		ctx, cancel = ec, func() { ec.end(context.DeadlineExceeded) }
	}
	w.mu.Lock()
	w.cancels[k] = cancel
	w.mu.Unlock()
	rpc := fmt.Sprintf("rpc%d", k)
	ready := make(chan struct{})
	var subs []*Actor
	for j := range spec.CSubs {
		subs = append(subs, w.newActorNoGID(fmt.Sprintf("c%d.%d", k, j+1)))
	}
	go func() {
		defer a.set(stDone, "")
		a.setGID()
		if spec.Unary {
			if !a.await("invoke") {
				close(ready)
				return
			}
			in := MakePayload(uint32(k)<<8, 'c', 0, spec.ReqSize)
			var out []byte
			r := w.beginOp(a, "invoke", k)
			r.Size = spec.ReqSize
			close(ready) // sub-actors (e.g. a canceller) may run while the invoke is in flight
			var enc drpc.Encoding = w.Enc
			if spec.BadRequest {
				enc = BadMarshalEnc{}
			} else if spec.BadResponse {
				enc = FailEnc{Msg: "harness: cannot decode the response"}
			}
			err := w.Conn.Invoke(ctx, rpc, enc, &in, &out)
			if err == nil && spec.BadRequest {
				w.Violate(fmt.Sprintf("rpc %d: Invoke of a request that cannot be marshalled returned nil", k))
			} else if err == nil && spec.BadResponse {
				w.Violate(fmt.Sprintf("rpc %d: Invoke whose response cannot be unmarshalled returned nil", k))
			} else if err == nil {
				w.checkRecv(k, 's', out, r)
			}
			w.endOp(r, err)
			a.logf("invoke -> %v", err)
			if spec.CancelImmediately {
				cancel()
			}
			if spec.CancelWhenDone && a.await("postcancel") {
				cancel()
			}
			return
		}
		if !a.await("newstream") {
			close(ready)
			return
		}
		r := w.beginOp(a, "newstream", k)
		st, err := w.Conn.NewStream(ctx, rpc, w.Enc)
		w.endOp(r, err)
		a.logf("newstream -> %v", err)
		if err != nil {
			close(ready)
			return
		}
		w.mu.Lock()
		w.streams[k] = st
		w.mu.Unlock()
		close(ready)
		w.streamScript(a, st, k, 'c', 0, spec.Client.Steps)
		if !spec.NoFinalClose && a.await("finalclose") {
			r := w.beginOp(a, "close", k)
			err := st.Close()
			w.endOp(r, err)
			a.logf("finalclose -> %v", err)
			if spec.CancelImmediately {
				cancel()
			}
		}
		if spec.CancelWhenDone && a.await("postcancel") {
			cancel()
		}
	}()
	for j, sp := range spec.CSubs {
		j, sp, sa := j, sp, subs[j]
		go func() {
			defer sa.set(stDone, "")
			sa.setGID()
			<-ready
			st := w.Stream(k)
			if st == nil && !spec.Unary {
				return
			}
			if spec.Unary {
				// only context-level steps make sense next to an Invoke
				for _, s := range sp.Steps {
					if s.Op != "cancel" && s.Op != "connclose" {
						continue
					}
					if !sa.await(s.Op) {
						return
					}
					r := w.beginOp(sa, s.Op, k)
					var err error
					if s.Op == "cancel" {
						cancel()
					} else {
						err = w.Conn.Close()
					}
					w.endOp(r, err)
				}
				return
			}
			w.streamScript(sa, st, k, 'c', j+1, sp.Steps)
		}()
	}
	return a
}

// StartProbe launches a unary echo RPC ("probe<n>") used to decide whether the connection still works.
func (w *World) StartProbe() *Actor {
	w.mu.Lock()
	w.probes++
	n := w.probes
	w.ProbeOK, w.ProbeErr = false, nil
	w.mu.Unlock()
	a := w.newActorNoGID(fmt.Sprintf("probe%d", n))
	go func() {
		defer a.set(stDone, "")
		a.setGID()
		if !a.await("probe") {
			return
		}
		in := MakePayload(0xfffff0+uint32(n), 'p', 0, 10)
		var out []byte
		r := w.beginOp(a, "probe", -1)
		err := w.Conn.Invoke(context.Background(), fmt.Sprintf("probe%d", n), w.Enc, &in, &out)
		w.endOp(r, err)
		w.mu.Lock()
		w.ProbeErr = err
		w.ProbeOK = err == nil && string(in) == string(out)
		if err == nil && string(in) != string(out) {
			w.Viol = append(w.Viol, "probe returned a response that is not the echo of its request")
		}
		w.mu.Unlock()
		a.logf("probe -> %v", err)
	}()
	return a
}

// GoCall runs f on a fresh harness goroutine registered as an actor that needs one grant.
func (w *World) GoCall(name, op string, rpc int, f func() error) *Actor {
	a := w.newActorNoGID(name)
	go func() {
		defer a.set(stDone, "")
		a.setGID()
		if !a.await(op) {
			return
		}
		r := w.beginOp(a, op, rpc)
		err := f()
		w.endOp(r, err)
		a.logf("%s -> %v", op, err)
	}()
	return a
}

// ---- the director -------------------------------------------------------------------

// Action is one enabled director action.
type Action struct {
	Kind string // kind in the fixed alphabet
	Name string
	do   func()
}

// Kinds is the fixed alphabet of action kinds; a choice is an index into it and falls
// through cyclically to the next enabled kind. Kind 0 ("default") is the plain flowing
// run: release a parked point, else move transport bytes, else grant the first actor.
var Kinds = []string{
	"default", "grant", "grant2", "grantLast",
	"c2s.acceptAll", "c2s.deliverAll", "s2c.acceptAll", "s2c.deliverAll",
	"c2s.accept1", "c2s.deliver1", "c2s.deliver7", "s2c.accept1", "s2c.deliver1", "s2c.deliver7",
	"release", "releaseNewest", "grantN", "c2s.acceptHalf", "s2c.acceptHalf", "c2s.deliverHalf", "s2c.deliverHalf",
}

// Filter selects which classes of action the director may take.
type Filter struct {
	NoTransport bool // frozen mode
	NoGrants    bool
	NoRelease   bool
	// Hold keeps goroutines parked at the named scheduling points parked (others may be released).
	Hold       func(point string) bool
	Coarse     bool // only whole accepts/deliveries
	OnlyActors func(name string) bool
	// AcceptOnly: transport may accept bytes (never deliver) on the client->server direction.
	C2SAcceptOnly bool
	S2CAcceptOnly bool
	// NoC2S / NoS2C stall one direction completely.
	NoC2S, NoS2C bool
}

// Enabled lists the enabled actions under the filter, in a stable order.
func (w *World) Enabled(f Filter) []Action {
	var acts []Action
	if !f.NoRelease {
		parked := w.Points.Parked()
		if f.Hold != nil {
			kept := parked[:0:0]
			for _, p := range parked {
				if !f.Hold(p.Name) {
					kept = append(kept, p)
				}
			}
			parked = kept
		}
		for i, p := range parked {
			p := p
			kind := "release"
			if i == len(parked)-1 && i > 0 {
				kind = "releaseNewest"
			}
			acts = append(acts, Action{kind, fmt.Sprintf("release:%s#%d", p.Name, p.N), func() { w.Points.Release(p) }})
		}
	}
	if !f.NoTransport || f.C2SAcceptOnly || f.S2CAcceptOnly {
		for _, d := range []struct {
			n string
			h *half
		}{{"c2s", w.A.out}, {"s2c", w.B.out}} {
			h, n := d.h, d.n
			if f.NoTransport && !((n == "c2s" && f.C2SAcceptOnly) || (n == "s2c" && f.S2CAcceptOnly)) {
				continue
			}
			if (n == "c2s" && f.NoC2S) || (n == "s2c" && f.NoS2C) {
				continue
			}
			if h.CanAccept() {
				acts = append(acts, Action{n + ".acceptAll", n + ".acceptAll", func() { h.Accept(0) }})
				if !f.Coarse {
					pw := h.PendingWrite()
					acts = append(acts, Action{n + ".accept1", n + ".accept1", func() { h.Accept(1) }})
					if pw > 2 {
						acts = append(acts, Action{n + ".acceptHalf", n + ".acceptHalf", func() { h.Accept(pw / 2) }})
					}
				}
			}
			if f.NoTransport {
				continue
			}
			if h.CanDeliver() {
				acts = append(acts, Action{n + ".deliverAll", n + ".deliverAll", func() { h.Deliver(0) }})
				if !f.Coarse {
					q := h.Queued()
					acts = append(acts, Action{n + ".deliver1", n + ".deliver1", func() { h.Deliver(1) }}, Action{n + ".deliver7", n + ".deliver7", func() { h.Deliver(7) }})
					if q > 2 {
						acts = append(acts, Action{n + ".deliverHalf", n + ".deliverHalf", func() { h.Deliver(q / 2) }})
					}
				}
			}
		}
	}
	if !f.NoGrants {
		var waiting []*Actor
		for _, a := range w.Actors() {
			if st, _ := a.State(); st == stWait && (f.OnlyActors == nil || f.OnlyActors(a.Name)) {
				waiting = append(waiting, a)
			}
		}
		for i, a := range waiting {
			a := a
			_, what := a.State()
			kind := "grant"
			switch {
			case i == 1:
				kind = "grant2"
			case i == len(waiting)-1 && i > 1:
				kind = "grantLast"
			case i > 1:
				kind = "grantN"
			}
			acts = append(acts, Action{kind, a.Name + ":" + what, func() { a.grant <- true }})
		}
	}
	return acts
}

func pick(choice int, acts []Action) Action {
	n := len(Kinds)
	for i := 0; i < n; i++ {
		kind := Kinds[((choice%n)+n+i)%n]
		for _, a := range acts {
			if kind == "default" {
				if strings.HasPrefix(a.Kind, "release") {
					return a
				}
				continue
			}
			if a.Kind == kind {
				return a
			}
		}
		if kind == "default" {
			for _, a := range acts {
				if strings.HasSuffix(a.Kind, "All") {
					return a
				}
			}
			for _, a := range acts {
				if a.Kind == "grant" {
					return a
				}
			}
		}
	}
	return acts[0]
}

// Step waits for quiescence and performs the enabled action selected by choice.
// It returns false when nothing is enabled.
func (w *World) Step(choice int, f Filter) (string, bool) {
	WaitQuiescent()
	acts := w.Enabled(f)
	if len(acts) == 0 {
		return "", false
	}
	a := pick(choice, acts)
	w.Trace = append(w.Trace, a.Name)
	a.do()
	return a.Name, true
}

// Flush runs default steps until nothing is enabled (a transport that keeps moving
// bytes, every actor granted, every point released). It returns the number of steps.
func (w *World) Flush(f Filter) int {
	n := 0
	for ; n < 20000; n++ {
		if _, ok := w.Step(0, f); !ok {
			return n
		}
	}
	w.Violate("harness: flush did not converge")
	return n
}

// Quiesce waits until the world is quiescent.
func (w *World) Quiesce() { WaitQuiescent() }

// Closed reports whether the client connection reports itself closed.
func (w *World) Closed() bool {
	if w.Conn == nil {
		return false
	}
	select {
	case <-w.Conn.Closed():
		return true
	default:
		return false
	}
}

// Drain tears the world down: no more parking, every actor aborted, connection and
// server closed, transports drained. It returns the drpc goroutines still alive.
func (w *World) Drain() []GInfo {
	if w.drained {
		return nil
	}
	w.drained = true
	w.Points.Uninstall()
	w.mu.Lock()
	for _, c := range w.cancels {
		c()
	}
	w.mu.Unlock()
	if w.Conn != nil {
		go func() { _ = w.Conn.Close() }()
	}
	w.CancelServer()
	for i := 0; i < 20000; i++ {
		WaitQuiescent()
		progressed := false
		// abort every waiting actor
		for _, a := range w.Actors() {
			if st, _ := a.State(); st == stWait {
				a.grant <- false
				progressed = true
			}
		}
		for _, h := range []*half{w.A.out, w.B.out} {
			if h.CanAccept() {
				h.Accept(0)
				progressed = true
			}
			if h.CanDeliver() {
				h.Deliver(0)
				progressed = true
			}
		}
		if !progressed {
			break
		}
	}
	// whatever the library left open is closed by the harness so that nothing leaks into the next case
	if w.A.Closes() == 0 {
		w.A.Fail(false)
	}
	if w.B.Closes() == 0 {
		w.B.Fail(false)
	}
	return w.Leaks(WaitQuiescent())
}

// Leaks returns the library goroutines in the snapshot that this world is responsible for: those that did
// not exist when it was created.
func (w *World) Leaks(gs []GInfo) (out []GInfo) {
	for _, g := range DrpcGoroutines(gs) {
		if !w.inherited[g.ID] {
			out = append(out, g)
		}
	}
	return out
}

// Dump renders the state of the world for failure details.
func (w *World) Dump() string {
	var sb strings.Builder
	fmt.Fprintf(&sb, "cfg=%+v\ntrace=%v\n", w.Cfg, w.Trace)
	for _, a := range w.Actors() {
		st, what := a.State()
		a.mu.Lock()
		fmt.Fprintf(&sb, "actor %s state=%d what=%s log=%v\n", a.Name, st, what, a.Log)
		a.mu.Unlock()
	}
	w.mu.Lock()
	fmt.Fprintf(&sb, "handlers started=%v returned=%v viol=%v\n", w.HStarted, w.HReturned, w.Viol)
	w.mu.Unlock()
	for _, g := range w.Leaks(Snapshot()) {
		fmt.Fprintf(&sb, "%s\n\n", g.Frames)
	}
	return sb.String()
}

// Violations returns the recorded oracle violations.
func (w *World) Violations() []string {
	w.mu.Lock()
	defer w.mu.Unlock()
	return append([]string(nil), w.Viol...)
}

// HandlersBalanced reports whether every started handler has returned.
func (w *World) HandlersBalanced() bool {
	w.mu.Lock()
	defer w.mu.Unlock()
	for rpc, n := range w.HStarted {
		if w.HReturned[rpc] != n {
			return false
		}
	}
	return true
}

var _ = errors.New

// GID returns the goroutine id of the actor (0 until its goroutine has started).
func (a *Actor) GID() int64 { a.mu.Lock(); defer a.mu.Unlock(); return a.gid }

func (a *Actor) setGID() { g := GoID(); a.mu.Lock(); a.gid = g; a.mu.Unlock() }

// endCtx is a context whose end the harness decides, including the error it reports (context.DeadlineExceeded
// without any timer). It implements the AfterFunc method the context package looks for, so deriving contexts from
// it needs no watcher goroutine.
type endCtx struct {
	context.Context
	mu    sync.Mutex
	done  chan struct{}
	err   error
	after map[int]func()
	next  int
}

func newEndCtx(parent context.Context) *endCtx {
	return &endCtx{Context: parent, done: make(chan struct{}), after: map[int]func(){}}
}

func (c *endCtx) Done() <-chan struct{} { return c.done }

func (c *endCtx) Err() error {
	c.mu.Lock()
	defer c.mu.Unlock()
	return c.err
}

func (c *endCtx) AfterFunc(f func()) (stop func() bool) {
	c.mu.Lock()
	defer c.mu.Unlock()
	if c.err != nil {
		go f()
		return func() bool { return false }
	}
	id := c.next
	c.next++
	c.after[id] = f
	return func() bool {
		c.mu.Lock()
		defer c.mu.Unlock()
		_, ok := c.after[id]
		delete(c.after, id)
		return ok
	}
}

func (c *endCtx) end(err error) {
	c.mu.Lock()
	if c.err != nil {
		c.mu.Unlock()
		return
	}
	c.err = err
	close(c.done)
	fs := c.after
	c.after = map[int]func(){}
	c.mu.Unlock()
	ids := make([]int, 0, len(fs))
	for id := range fs {
		ids = append(ids, id)
	}
	sort.Ints(ids)
	for _, id := range ids {
		f := fs[id]
		f() // cancels the derived contexts before anything that waits on Done of this one can observe a gap
	}
}
