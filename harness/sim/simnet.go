package sim

import (
	"errors"
	"io"
	"net"
	"sync"
	"sync/atomic"
	"time"
)

var (
	ErrSimClosed = errors.New("sim: use of closed transport")
	ErrSimFault  = errors.New("sim: injected transport fault")
	ErrSimSoft   = error(softErr{})
	ErrSimPeer   = errors.New("sim: write to a transport whose peer is gone")
)

type pendingOp struct {
	buf  []byte
	off  int
	done chan opResult
}
type opResult struct {
	n   int
	err error
}

// WriteRec is one Write call as seen by the transport.
type WriteRec struct {
	Data     []byte
	Accepted int   // bytes the transport took
	Begin    int64 // logical stamps
	End      int64 // 0 while pending
	Err      error
}

// half is one direction of the pipe.
type half struct {
	mu      sync.Mutex
	queue   []byte // accepted, not yet delivered
	wr      *pendingOp
	wrRec   *WriteRec
	rd      *pendingOp
	wclosed bool // writer end closed/failed: reader drains then gets EOF
	rclosed bool // reader end closed/failed: writes fail
	eofErr  error
	log     []*WriteRec
	concW   bool
	concR   bool
	total   int // bytes ever accepted
	clock   *int64
}

// Fault describes a planned transport failure on one end, at its K-th I/O call (1-based).
type Fault struct {
	K    int
	Kind string // "read_err", "read_err_data", "read_err_soft", "write_err", "peer_close", "local_close"
	J    int    // write_err: bytes accepted before the error; read_err_data: max bytes delivered with the error
}

// End is one endpoint; it implements drpc.Transport.
type End struct {
	Name       string
	out        *half
	in         *half
	mu         sync.Mutex
	closes     int
	failed     bool
	ios        int
	reads      int
	writes     int
	fault      *Fault
	faultFired bool
	faultGID   int64
	faultWrite bool
	peer       *End
	// OnIO, if set, is called (outside locks) at the start of every Read/Write with the call index.
	OnIO func(idx int, isWrite bool)
	// OnClosing, if set, is called inside Close after the pending I/O has been failed and before Close returns.
	OnClosing func()
	closed    int // Close calls that have returned
	writeErr  error
}

// Pipe returns two connected ends sharing a logical clock.
func Pipe(clock *int64) (*End, *End) {
	ab, ba := &half{clock: clock}, &half{clock: clock}
	a, b := &End{Name: "A", out: ab, in: ba}, &End{Name: "B", out: ba, in: ab}
	a.peer, b.peer = b, a
	return a, b
}

func (e *End) Closes() int       { e.mu.Lock(); defer e.mu.Unlock(); return e.closes }
func (e *End) IOs() int          { e.mu.Lock(); defer e.mu.Unlock(); return e.ios }
func (e *End) Failed() bool      { e.mu.Lock(); defer e.mu.Unlock(); return e.failed }
func (e *End) SetFault(f *Fault) { e.mu.Lock(); e.fault = f; e.mu.Unlock() }
func (e *End) FaultFired() bool  { e.mu.Lock(); defer e.mu.Unlock(); return e.faultFired }

// FaultSite reports the goroutine whose I/O call received the fault and whether it was a write.
func (e *End) FaultSite() (gid int64, isWrite bool) {
	e.mu.Lock()
	defer e.mu.Unlock()
	return e.faultGID, e.faultWrite
}
func (e *End) Out() *half { return e.out }
func (e *End) In() *half  { return e.in }

func (h *half) tick() int64 { return atomic.AddInt64(h.clock, 1) }

// ioStart counts the call and reports the fault to apply to it, if any.
func (e *End) ioStart(isWrite bool) *Fault {
	e.mu.Lock()
	e.ios++
	if isWrite {
		e.writes++
	} else {
		e.reads++
	}
	idx := e.ios
	var f *Fault
	if e.fault != nil && !e.faultFired && idx == e.fault.K {
		f = e.fault
		e.faultFired = true
		e.faultGID = GoID()
		e.faultWrite = isWrite
	}
	cb := e.OnIO
	e.mu.Unlock()
	if cb != nil {
		cb(idx, isWrite)
	}
	return f
}

// FailWrites makes every further Write of this end fail with err while its reads stay as they are (a transport
// whose send direction is gone: a write deadline, a peer that shut down its receive half).
func (e *End) FailWrites(err error) {
	e.mu.Lock()
	e.writeErr = err
	e.mu.Unlock()
}

func (e *End) Write(p []byte) (int, error) {
	e.mu.Lock()
	werr := e.writeErr
	e.mu.Unlock()
	if werr != nil {
		e.ioStart(true)
		return 0, werr
	}
	f := e.ioStart(true)
	if f != nil {
		switch f.Kind {
		case "local_close":
			e.shut(ErrSimClosed) // someone else closed the transport locally (not counted as the library's Close)
		case "peer_close":
			e.peer.Fail(false)
		case "write_err", "read_err", "read_err_data", "read_err_soft":
			// a fault planned for a read that lands on a write is a write error
			j := f.J
			if j > len(p) {
				j = len(p)
			}
			h := e.out
			h.mu.Lock()
			rec := &WriteRec{Data: append([]byte(nil), p...), Accepted: j, Begin: h.tick(), Err: ErrSimFault}
			if f.Kind == "read_err_soft" {
				rec.Err = ErrSimSoft
			}
			rec.End = rec.Begin
			h.log = append(h.log, rec)
			h.queue = append(h.queue, p[:j]...)
			h.total += j
			h.mu.Unlock()
			if f.Kind == "read_err_soft" {
				// the soft fault on a write: j bytes taken, an error of the temporary shape, the socket stays usable
				return j, ErrSimSoft
			}
			e.Fail(true)
			return j, ErrSimFault
		}
	}
	op := &pendingOp{buf: append([]byte(nil), p...), done: make(chan opResult, 1)}
	h := e.out
	h.mu.Lock()
	rec := &WriteRec{Data: op.buf, Begin: h.tick()}
	switch {
	case h.wclosed:
		rec.Err, rec.End = ErrSimClosed, rec.Begin
		h.log = append(h.log, rec)
		h.mu.Unlock()
		return 0, ErrSimClosed
	case h.rclosed:
		rec.Err, rec.End = ErrSimPeer, rec.Begin
		h.log = append(h.log, rec)
		h.mu.Unlock()
		return 0, ErrSimPeer
	case h.wr != nil:
		h.concW = true
		h.mu.Unlock()
		return 0, errors.New("sim: concurrent writes")
	}
	h.log = append(h.log, rec)
	h.wr, h.wrRec = op, rec
	if len(p) == 0 {
		h.wr, h.wrRec = nil, nil
		rec.End = rec.Begin
		h.mu.Unlock()
		return 0, nil
	}
	h.mu.Unlock()
	r := <-op.done
	return r.n, r.err
}

func (e *End) Read(p []byte) (int, error) {
	f := e.ioStart(false)
	if f != nil {
		switch f.Kind {
		case "local_close":
			e.shut(ErrSimClosed) // someone else closed the transport locally (not counted as the library's Close)
		case "peer_close":
			e.peer.Fail(false)
		case "read_err", "write_err":
			e.Fail(true)
			return 0, ErrSimFault
		case "read_err_soft":
			// the read reports an error of the kind a net.Conn calls temporary (a deadline, EAGAIN) and the
			// socket stays usable: to the library an error returned by a read is still a failed transport
			return 0, ErrSimSoft
		case "read_err_data":
			h := e.in
			h.mu.Lock()
			n := len(h.queue)
			if n > len(p) {
				n = len(p)
			}
			if f.J > 0 && n > f.J {
				n = f.J
			}
			copy(p, h.queue[:n])
			h.queue = h.queue[n:]
			h.mu.Unlock()
			e.Fail(true)
			return n, ErrSimFault
		}
	}
	op := &pendingOp{buf: p, done: make(chan opResult, 1)}
	h := e.in
	h.mu.Lock()
	if h.rclosed {
		err := h.eofErr
		if err == nil {
			err = ErrSimClosed
		}
		h.mu.Unlock()
		return 0, err
	}
	if h.rd != nil {
		h.concR = true
		h.mu.Unlock()
		return 0, errors.New("sim: concurrent reads")
	}
	if len(p) == 0 {
		h.mu.Unlock()
		return 0, nil
	}
	h.rd = op
	h.mu.Unlock()
	r := <-op.done
	return r.n, r.err
}

// shut ends this end's I/O: its pending and later calls fail with err; the peer
// reads buffered bytes then EOF, and its writes toward us fail.
func (e *End) shut(err error) {
	h := e.out
	h.mu.Lock()
	h.wclosed = true
	if op := h.wr; op != nil {
		h.wr = nil
		if h.wrRec != nil {
			h.wrRec.Accepted, h.wrRec.End, h.wrRec.Err = op.off, h.tick(), err
			h.wrRec = nil
		}
		op.done <- opResult{op.off, err}
	}
	h.mu.Unlock()
	h = e.in
	h.mu.Lock()
	h.rclosed = true
	h.eofErr = err
	if op := h.rd; op != nil {
		h.rd = nil
		op.done <- opResult{0, err}
	}
	if op := h.wr; op != nil { // the peer's pending write toward us
		h.wr = nil
		if h.wrRec != nil {
			h.wrRec.Accepted, h.wrRec.End, h.wrRec.Err = op.off, h.tick(), ErrSimPeer
			h.wrRec = nil
		}
		op.done <- opResult{op.off, ErrSimPeer}
	}
	h.mu.Unlock()
}

// Close is the library-visible Close.
func (e *End) Close() error {
	e.mu.Lock()
	e.closes++
	cb := e.OnClosing
	e.mu.Unlock()
	e.shut(ErrSimClosed)
	if cb != nil {
		// the pending I/O has been let go; the rest of the shutdown takes as long as the harness says
		cb()
	}
	e.mu.Lock()
	e.closed++
	e.mu.Unlock()
	return nil
}

// ClosesDone counts the Close calls that have returned.
func (e *End) ClosesDone() int { e.mu.Lock(); defer e.mu.Unlock(); return e.closed }

// Fail breaks the end as a dead socket would (own=true: this end's calls report
// the injected fault; own=false: the end simply went away, e.g. the peer process died).
func (e *End) Fail(own bool) {
	e.mu.Lock()
	e.failed = true
	e.mu.Unlock()
	if own {
		e.shut(ErrSimFault)
	} else {
		e.shut(ErrSimClosed)
	}
}

// ---- director-side operations on a direction ----

func (h *half) CanAccept() bool { h.mu.Lock(); defer h.mu.Unlock(); return h.wr != nil }
func (h *half) CanDeliver() bool {
	h.mu.Lock()
	defer h.mu.Unlock()
	return h.rd != nil && (len(h.queue) > 0 || h.wclosed)
}
func (h *half) PendingWrite() int {
	h.mu.Lock()
	defer h.mu.Unlock()
	if h.wr == nil {
		return 0
	}
	return len(h.wr.buf) - h.wr.off
}
func (h *half) Total() int        { h.mu.Lock(); defer h.mu.Unlock(); return h.total }
func (h *half) Queued() int       { h.mu.Lock(); defer h.mu.Unlock(); return len(h.queue) }
func (h *half) ReadPending() bool { h.mu.Lock(); defer h.mu.Unlock(); return h.rd != nil }
func (h *half) Concurrent() (w, r bool) {
	h.mu.Lock()
	defer h.mu.Unlock()
	return h.concW, h.concR
}

// Log returns a copy of the write records.
func (h *half) Log() []WriteRec {
	h.mu.Lock()
	defer h.mu.Unlock()
	out := make([]WriteRec, len(h.log))
	for i, r := range h.log {
		out[i] = *r
		if h.wr != nil && r == h.wrRec {
			out[i].Accepted = h.wr.off
		}
	}
	return out
}

// AcceptedBytes is the concatenation of everything the transport took so far.
func (h *half) AcceptedBytes() []byte {
	var b []byte
	for _, r := range h.Log() {
		b = append(b, r.Data[:r.Accepted]...)
	}
	return b
}

// Accept moves up to k bytes (k<=0: all) of the pending write into flight.
func (h *half) Accept(k int) {
	h.mu.Lock()
	op := h.wr
	if op == nil {
		h.mu.Unlock()
		return
	}
	rest := op.buf[op.off:]
	if k <= 0 || k > len(rest) {
		k = len(rest)
	}
	h.queue = append(h.queue, rest[:k]...)
	h.total += k
	op.off += k
	fin := op.off == len(op.buf)
	if h.wrRec != nil {
		h.wrRec.Accepted = op.off
	}
	if fin {
		h.wr = nil
		if h.wrRec != nil {
			h.wrRec.End = h.tick()
			h.wrRec = nil
		}
	}
	h.mu.Unlock()
	if fin {
		op.done <- opResult{len(op.buf), nil}
	}
}

// Deliver completes the pending read with up to n bytes (n<=0: all available).
func (h *half) Deliver(n int) {
	h.mu.Lock()
	op := h.rd
	if op == nil {
		h.mu.Unlock()
		return
	}
	h.rd = nil
	if len(h.queue) == 0 {
		h.mu.Unlock()
		op.done <- opResult{0, io.EOF}
		return
	}
	if n <= 0 || n > len(h.queue) {
		n = len(h.queue)
	}
	if n > len(op.buf) {
		n = len(op.buf)
	}
	copy(op.buf, h.queue[:n])
	h.queue = h.queue[n:]
	h.mu.Unlock()
	op.done <- opResult{n, nil}
}

// Inject appends raw bytes to the direction as if the writer had sent them (wire-level peer).
func (h *half) Inject(b []byte) {
	h.mu.Lock()
	h.queue = append(h.queue, b...)
	h.total += len(b)
	rec := &WriteRec{Data: append([]byte(nil), b...), Accepted: len(b), Begin: h.tick()}
	rec.End = rec.Begin
	h.log = append(h.log, rec)
	h.mu.Unlock()
}

// net.Conn plumbing so that an End can be handed out by a net.Listener.
type simAddr struct{}

func (simAddr) Network() string { return "sim" }
func (simAddr) String() string  { return "sim" }

func (e *End) LocalAddr() net.Addr                { return simAddr{} }
func (e *End) RemoteAddr() net.Addr               { return simAddr{} }
func (e *End) SetDeadline(t time.Time) error      { return nil }
func (e *End) SetReadDeadline(t time.Time) error  { return nil }
func (e *End) SetWriteDeadline(t time.Time) error { return nil }

// Listener is an in-memory net.Listener fed by the test.
type Listener struct {
	mu     sync.Mutex
	conns  chan net.Conn
	done   chan struct{}
	closes int
	err    error
	taken  []net.Conn
	// hold, when non-nil, keeps the next Accept that has taken a connection from returning until it is
	// closed (the kernel has handed the connection over, the caller has not looked at it yet)
	hold chan struct{}
}

// HoldNextAccept makes the next Accept that takes a connection wait for the returned release function.
func (l *Listener) HoldNextAccept() (release func()) {
	ch := make(chan struct{})
	l.mu.Lock()
	l.hold = ch
	l.mu.Unlock()
	return func() { close(ch) }
}

// Accepted lists the connections Accept has handed out so far.
func (l *Listener) Accepted() []net.Conn {
	l.mu.Lock()
	defer l.mu.Unlock()
	return append([]net.Conn(nil), l.taken...)
}

func NewListener() *Listener {
	return &Listener{conns: make(chan net.Conn), done: make(chan struct{})}
}

// Offer hands a connection to a pending Accept (blocks until one takes it or the listener closes).
func (l *Listener) Offer(c net.Conn) bool {
	select {
	case l.conns <- c:
		return true
	case <-l.done:
		return false
	}
}

// Fail makes the pending and later Accept calls fail with err.
func (l *Listener) Fail(err error) {
	l.mu.Lock()
	defer l.mu.Unlock()
	if l.err == nil {
		l.err = err
		close(l.done)
	}
}

func (l *Listener) Accept() (net.Conn, error) {
	select {
	case c := <-l.conns:
		l.mu.Lock()
		l.taken = append(l.taken, c)
		hold := l.hold
		l.hold = nil
		l.mu.Unlock()
		if hold != nil {
			<-hold
		}
		return c, nil
	case <-l.done:
		l.mu.Lock()
		defer l.mu.Unlock()
		return nil, l.err
	}
}

func (l *Listener) Close() error {
	l.mu.Lock()
	l.closes++
	l.mu.Unlock()
	l.Fail(errors.New("sim: listener closed"))
	return nil
}

func (l *Listener) Closes() int    { l.mu.Lock(); defer l.mu.Unlock(); return l.closes }
func (l *Listener) Addr() net.Addr { return simAddr{} }

// softErr is a read error that describes itself as temporary and as a timeout, as net.Error values do.
type softErr struct{}

func (softErr) Error() string   { return "sim: injected temporary read error" }
func (softErr) Timeout() bool   { return true }
func (softErr) Temporary() bool { return true }
