// Package stream holds the model-based check of the stream state machine (C03).
package stream

import (
	"fmt"
)

// Op is one step of a history: a local call or a packet from the peer.
type Op struct {
	Kind string // send recv closesend close senderror cancel sendcancel rawwrite rawflush | r:message r:closesend r:close r:error r:shorterror r:cancel r:invoke r:metadata r:unknown r:unknownctl r:foreign
	Size int    // message / payload size
	Arg  int    // error index (senderror, cancel, r:error) or packet kind (rawwrite, r:unknown*)
}

func (o Op) String() string { return fmt.Sprintf("%s(%d,%d)", o.Kind, o.Size, o.Arg) }

// errClass describes what a call must return.
type errClass struct {
	Kind string // "nil" "eof" "remote" (decoded remote error Arg) "caller" (the error passed to Cancel, index Arg) "nonnil" "any"
	Arg  int
}

func (e errClass) String() string { return fmt.Sprintf("%s/%d", e.Kind, e.Arg) }

// expect is what the model predicts for one call.
type expect struct {
	Blocks bool       // the call does not return at this step
	Err    errClass   // outcome when it returns
	Emit   []emission // packets put on the wire by this call
	Bool   int        // Cancel: 1 must return true, 0 false, -1 n/a; SendCancel busy flag 0
	Msg    int        // recv: sequence number of the message that must be returned (-1: none)
}

type emission struct {
	Kind    uint8
	Control bool
	Len     int
}

// Model is the documented state machine: open, send-closed, recv-closed,
// terminated/cancelled, finished (state.dot), refined with the godoc of each method.
type Model struct {
	Send    errClass // {"" open} or what sends report
	SendSet bool
	RecvSet bool
	Term    bool
	// what a receive reports once nothing is buffered (first termination cause wins)
	RecvErr    errClass
	RecvErrSet bool
	Cancelled  bool

	PendingRecv int  // receivers blocked (their calls have not returned)
	PendingPut  bool // the connection reader is blocked handing over message PutSeq
	PutSeq      int
	NextRemote  int // sequence number of the next remote message
}

func (m *Model) setSend(c errClass) {
	if !m.SendSet {
		m.SendSet, m.Send = true, c
	}
}

func (m *Model) closeRecvBuf(c errClass) {
	if !m.RecvErrSet {
		m.RecvErrSet, m.RecvErr = true, c
	}
}

// terminate: sends and receives fail from now on (first cause wins for each), blocked calls wake.
func (m *Model) terminate(c errClass) {
	m.setSend(c)
	m.RecvSet = true
	m.Term = true
	m.closeRecvBuf(c)
}

// Finished: terminated and no operation in flight. At a quiescent point with an instant
// sink no local call can be in flight once the stream is terminated (blocked receivers are woken).
func (m *Model) Finished() bool { return m.Term }

var nonNil = errClass{Kind: "nonnil"}
var isNil = errClass{Kind: "nil"}
var isEOF = errClass{Kind: "eof"}

// Step advances the model and returns the expectation for the call. woken lists expectations
// for previously blocked calls that must complete because of this step ("recv" or "put").
func (m *Model) Step(op Op) (ex expect, woken []wake) {
	ex.Bool, ex.Msg = -1, -1
	ex.Err = isNil
	wakeAll := func() {
		// termination / buffer close wakes blocked receivers and a blocked reader
		for ; m.PendingRecv > 0; m.PendingRecv-- {
			woken = append(woken, wake{What: "recv", Err: m.RecvErr, Msg: -1})
		}
		if m.PendingPut {
			m.PendingPut = false
			woken = append(woken, wake{What: "put", Err: isNil})
		}
	}
	switch op.Kind {
	case "send", "rawwrite":
		kind := uint8(2)
		if op.Kind == "rawwrite" {
			kind = uint8(op.Arg)
		}
		switch {
		case m.SendSet:
			ex.Err = m.Send
		default:
			ex.Emit = []emission{{Kind: kind, Len: op.Size}}
		}
	case "rawflush":
		// nothing is ever left unflushed with the 1-byte writer buffer used by the sequential check
	case "recv":
		switch {
		case m.PendingPut:
			m.PendingPut = false
			ex.Msg = m.PutSeq
			woken = append(woken, wake{What: "put", Err: isNil})
		case m.RecvErrSet:
			ex.Err = m.RecvErr
		default:
			ex.Blocks = true
			m.PendingRecv++
		}
	case "closesend":
		if !m.SendSet && !m.Term {
			ex.Emit = []emission{{Kind: 6}}
			m.setSend(nonNil)
			if m.RecvSet {
				m.terminate(nonNil)
				wakeAll()
			}
		}
	case "close":
		if !m.Term {
			ex.Emit = []emission{{Kind: 5}}
			m.terminate(nonNil)
			wakeAll()
		}
	case "senderror":
		if !m.Term {
			ex.Emit = []emission{{Kind: 3, Len: -1}}
			m.setSend(isEOF)
			m.terminate(nonNil)
			wakeAll()
		}
	case "cancel":
		if m.Finished() {
			ex.Bool = 1
		} else {
			ex.Bool = 0
			m.Cancelled = true
			m.setSend(isEOF)
			m.terminate(errClass{Kind: "caller", Arg: op.Arg})
			wakeAll()
		}
	case "sendcancel":
		ex.Bool = 0
		if !m.Term {
			ex.Emit = []emission{{Kind: 4, Control: true}}
			m.setSend(isEOF)
			m.terminate(errClass{Kind: "caller", Arg: op.Arg})
			wakeAll()
		}
	case "r:foreign":
	case "r:message":
		seq := m.NextRemote
		m.NextRemote++
		switch {
		case m.Term || m.RecvErrSet:
			// dropped
		case m.PendingRecv > 0:
			m.PendingRecv--
			woken = append(woken, wake{What: "recv", Err: isNil, Msg: seq})
		default:
			ex.Blocks = true
			m.PendingPut, m.PutSeq = true, seq
		}
	case "r:closesend":
		if !m.Term {
			m.RecvSet = true
			m.closeRecvBuf(isEOF)
			if m.SendSet {
				m.terminate(nonNil)
			}
			wakeAll()
		}
	case "r:close":
		if !m.Term {
			m.RecvSet = true
			m.closeRecvBuf(errClass{Kind: "nonnil"}) // no specific error documented for receives after a remote close
			m.terminate(nonNil)
			wakeAll()
		}
	case "r:error", "r:shorterror":
		if !m.Term {
			m.setSend(isEOF)
			c := errClass{Kind: "remote", Arg: op.Arg}
			if op.Kind == "r:shorterror" {
				c = nonNil
			}
			m.terminate(c)
			wakeAll()
		}
	case "r:cancel":
		if !m.Term {
			m.Cancelled = true
			m.setSend(isEOF)
			m.terminate(errClass{Kind: "canceled"})
			wakeAll()
		}
	case "r:invoke", "r:metadata", "r:unknown":
		if !m.Term {
			ex.Err = nonNil
			m.terminate(nonNil)
			wakeAll()
		}
	case "r:unknownctl":
	}
	return
}

type wake struct {
	What string // "recv" or "put"
	Err  errClass
	Msg  int
}
