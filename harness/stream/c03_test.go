package stream

import (
	"bytes"
	"context"
	"encoding/binary"
	"errors"
	"fmt"
	"io"
	"strings"
	"sync"
	"testing"

	"pgregory.net/rapid"
	"storj.io/drpc"
	"storj.io/drpc/drpcerr"
	"storj.io/drpc/drpcstream"
	"storj.io/drpc/drpcwire"

	"verif/pbt"
	"verif/ref"
	"verif/sim"
)

type rawEnc struct{}

func (rawEnc) Marshal(msg drpc.Message) ([]byte, error) { return *(msg.(*[]byte)), nil }
func (rawEnc) Unmarshal(buf []byte, msg drpc.Message) error {
	*(msg.(*[]byte)) = append([]byte(nil), buf...)
	return nil
}

// sink is the harness-side io.Writer behind the stream's drpcwire.Writer.
type sink struct {
	mu     sync.Mutex
	buf    []byte
	writes int
	parkAt int // park the n-th write (1-based; 0 = never)
	parked chan struct{}
	isPark bool
	fail   error
	// parkLen is the size of the write that parked; closed makes every later write fail too
	parkLen int
	closed  bool
}

func (s *sink) Write(p []byte) (int, error) {
	s.mu.Lock()
	s.writes++
	park := s.parkAt != 0 && s.writes == s.parkAt
	if park {
		s.isPark = true
		s.parkLen = len(p)
	}
	if s.closed {
		s.mu.Unlock()
		return 0, errors.New("sink: transport closed")
	}
	ch := s.parked
	s.mu.Unlock()
	if park {
		<-ch
		s.mu.Lock()
		s.isPark = false
		err := s.fail
		if err != nil {
			s.closed = true
		}
		s.mu.Unlock()
		if err != nil {
			return 0, err
		}
	}
	s.mu.Lock()
	s.buf = append(s.buf, p...)
	s.mu.Unlock()
	return len(p), nil
}

func (s *sink) bytesFrom(off int) []byte {
	s.mu.Lock()
	defer s.mu.Unlock()
	return append([]byte(nil), s.buf[off:]...)
}

func (s *sink) len() int { s.mu.Lock(); defer s.mu.Unlock(); return len(s.buf) }

var callerErrs = []error{errors.New("caller error A"), errors.New("caller error B"), context.DeadlineExceeded}

type remoteErr struct {
	msg  string
	code uint64
}

var remoteErrs = []remoteErr{{"remote boom", 0}, {"", 7}, {"x\ny", 1<<64 - 1}}

type callResult struct {
	err  error
	b    bool
	data []byte
	done bool
}

type c03Case struct {
	Split int
	Ops   []Op
}

const sid = 5

func marshalRemote(e remoteErr) []byte {
	b := make([]byte, 8)
	binary.BigEndian.PutUint64(b, e.code)
	return append(b, e.msg...)
}

func remoteMsg(seq int, size int) []byte {
	b := make([]byte, 4+size)
	binary.BigEndian.PutUint32(b, uint32(seq))
	for i := 4; i < len(b); i++ {
		b[i] = byte(seq + i)
	}
	return b
}

func matches(c errClass, err error) bool {
	switch c.Kind {
	case "nil":
		return err == nil
	case "eof":
		return err == io.EOF
	case "nonnil":
		return err != nil
	case "any":
		return true
	case "canceled":
		return errors.Is(err, context.Canceled)
	case "caller":
		return err == callerErrs[c.Arg%len(callerErrs)]
	case "remote":
		re := remoteErrs[c.Arg%len(remoteErrs)]
		return err != nil && err.Error() == re.msg && drpcerr.Code(err) == re.code
	}
	return false
}

func runC03(c c03Case) (r pbt.Result) {
	sk := &sink{}
	wr := drpcwire.NewWriter(sk, 1) // every frame goes straight to the sink
	st := drpcstream.NewWithOptions(context.Background(), sid, wr, drpcstream.Options{SplitSize: c.Split})
	m := &Model{}
	type pendingCall struct {
		what string // "recv" or "put"
		res  *callResult
		step int
	}
	var pend []pendingCall
	var lastID uint64
	transitions := 0
	readerBlocked := func() bool { return m.PendingPut }
	fail := func(step int, f string, a ...any) {
		r.Fail = fmt.Sprintf(f, a...)
		r.Detail = fmt.Sprintf("at step %d of %v\nmodel=%+v", step, c.Ops, *m)
	}
	exec := func(op Op, res *callResult) {
		var msg []byte
		switch op.Kind {
		case "send":
			p := make([]byte, op.Size)
			res.err = st.MsgSend(&p, rawEnc{})
		case "rawwrite":
			res.err = st.RawWrite(drpcwire.Kind(op.Arg), make([]byte, op.Size))
		case "rawflush":
			res.err = st.RawFlush()
		case "recv":
			res.err = st.MsgRecv(&msg, rawEnc{})
			res.data = msg
		case "closesend":
			res.err = st.CloseSend()
		case "close":
			res.err = st.Close()
		case "senderror":
			res.err = st.SendError(callerErrs[op.Arg%len(callerErrs)])
		case "cancel":
			res.b = st.Cancel(callerErrs[op.Arg%len(callerErrs)])
		case "sendcancel":
			res.b, res.err = st.SendCancel(callerErrs[op.Arg%len(callerErrs)])
		default:
			pkt := drpcwire.Packet{ID: drpcwire.ID{Stream: sid, Message: 1}}
			switch op.Kind {
			case "r:message":
				pkt.Kind, pkt.Data = drpcwire.KindMessage, remoteMsg(op.Arg, op.Size)
			case "r:closesend":
				pkt.Kind = drpcwire.KindCloseSend
			case "r:close":
				pkt.Kind = drpcwire.KindClose
			case "r:error":
				pkt.Kind, pkt.Data = drpcwire.KindError, marshalRemote(remoteErrs[op.Arg%len(remoteErrs)])
			case "r:shorterror":
				pkt.Kind, pkt.Data = drpcwire.KindError, []byte("short")[:op.Size%6]
			case "r:cancel":
				pkt.Kind, pkt.Control = drpcwire.KindCancel, op.Size%2 == 0
			case "r:invoke":
				pkt.Kind, pkt.Data = drpcwire.KindInvoke, []byte("rpc")
			case "r:metadata":
				pkt.Kind = drpcwire.KindInvokeMetadata
			case "r:unknown":
				pkt.Kind = drpcwire.Kind(op.Arg)
			case "r:unknownctl":
				pkt.Kind, pkt.Control = drpcwire.Kind(op.Arg), true
			case "r:foreign":
				pkt.ID.Stream = sid + 1 + uint64(op.Arg)
				pkt.Kind = drpcwire.Kind(1 + op.Size%7)
			}
			res.err = st.HandlePacket(pkt)
		}
		res.done = true
	}
	skipped := 0
	for i, op := range c.Ops {
		if strings.HasPrefix(op.Kind, "r:") && readerBlocked() {
			skipped++
			continue // the single connection reader is still inside its previous HandlePacket
		}
		if op.Kind == "r:message" {
			op.Arg = m.NextRemote
		}
		before := *m
		ex, woken := m.Step(op)
		if before.Term != m.Term || before.SendSet != m.SendSet || before.RecvSet != m.RecvSet {
			transitions++
		}
		off := sk.len()
		res := &callResult{}
		var mu sync.Mutex
		go func() { mu.Lock(); exec(op, res); mu.Unlock() }()
		sim.WaitQuiescent()
		done := func(cr *callResult) bool { return cr.done } // safe: quiescent, the goroutine is blocked or gone
		// the call itself
		if ex.Blocks {
			if done(res) {
				fail(i, "%s returned although the documented state machine has it block", op.Kind)
				return
			}
			what := "recv"
			if op.Kind == "r:message" {
				what = "put"
			}
			pend = append(pend, pendingCall{what, res, i})
		} else {
			if !done(res) {
				fail(i, "%s did not return", op.Kind)
				return
			}
			if !matches(ex.Err, res.err) {
				fail(i, "%s returned an error outside the documented outcome (%s)", op.Kind, ex.Err.Kind)
				r.Detailf("got %v want %s", res.err, ex.Err)
				return
			}
			if ex.Bool >= 0 && res.b != (ex.Bool == 1) {
				fail(i, "%s returned the wrong boolean", op.Kind)
				return
			}
			if op.Kind == "recv" && res.err == nil {
				if len(res.data) < 4 || int(binary.BigEndian.Uint32(res.data)) != ex.Msg || !bytes.Equal(res.data, remoteMsg(ex.Msg, len(res.data)-4)) {
					fail(i, "recv returned a message other than the next one from the peer")
					return
				}
			}
		}
		// calls that must have been woken by this step
		for _, wk := range woken {
			idx := -1
			for j, p := range pend {
				if p.what == wk.What && done(p.res) {
					idx = j
					break
				}
			}
			if idx < 0 {
				fail(i, "a blocked %s was not released by %s", wk.What, op.Kind)
				return
			}
			p := pend[idx]
			pend = append(pend[:idx], pend[idx+1:]...)
			if !matches(wk.Err, p.res.err) {
				fail(i, "a released %s returned an error outside the documented outcome (%s)", wk.What, wk.Err.Kind)
				r.Detailf("got %v want %s", p.res.err, wk.Err)
				return
			}
			if wk.What == "recv" && wk.Msg >= 0 {
				if len(p.res.data) < 4 || int(binary.BigEndian.Uint32(p.res.data)) != wk.Msg {
					fail(i, "a released recv returned the wrong message")
					return
				}
			}
		}
		for _, p := range pend {
			if done(p.res) {
				fail(i, "a blocked %s returned although nothing released it", p.what)
				return
			}
		}
		// emissions of this step
		var got []emission
		rest := sk.bytesFrom(off)
		var cur *emission
		var curID [2]uint64
		for len(rest) > 0 {
			fr, rem, cls := ref.ParseFrame(rest)
			if cls != ref.OK {
				fail(i, "the stream wrote bytes that are not whole frames")
				return
			}
			rest = rem
			if fr.Stream != sid {
				fail(i, "frame with a foreign stream id emitted")
				return
			}
			if cur == nil || curID != [2]uint64{fr.Stream, fr.Message} {
				if cur != nil {
					fail(i, "a packet was left unfinished on the wire")
					return
				}
				if fr.Message <= lastID {
					fail(i, "message ids are not strictly increasing")
					return
				}
				lastID = fr.Message
				cur = &emission{Kind: fr.Kind, Control: fr.Control}
				curID = [2]uint64{fr.Stream, fr.Message}
			}
			cur.Len += len(fr.Data)
			if c.Split > 0 && len(fr.Data) > c.Split && (op.Kind == "send" || op.Kind == "rawwrite") {
				fail(i, "frame larger than the split size")
				return
			}
			if fr.Done {
				got = append(got, *cur)
				cur = nil
			}
		}
		if cur != nil {
			fail(i, "a packet was left unfinished on the wire")
			return
		}
		if len(got) != len(ex.Emit) {
			fail(i, "%s emitted %d packets, the state machine says %d", op.Kind, len(got), len(ex.Emit))
			r.Detailf("got %+v want %+v", got, ex.Emit)
			return
		}
		for j := range got {
			if got[j].Kind != ex.Emit[j].Kind || got[j].Control != ex.Emit[j].Control || (ex.Emit[j].Len >= 0 && got[j].Len != ex.Emit[j].Len) {
				fail(i, "%s emitted an unexpected packet", op.Kind)
				r.Detailf("got %+v want %+v", got, ex.Emit)
				return
			}
		}
		// signals
		if st.IsTerminated() != m.Term {
			fail(i, "terminated signal differs from the state machine after %s", op.Kind)
			return
		}
		if st.IsFinished() != m.Finished() {
			fail(i, "finished signal differs from the state machine after %s", op.Kind)
			return
		}
		ctxDone := false
		select {
		case <-st.Context().Done():
			ctxDone = true
		default:
		}
		if ctxDone != m.Finished() {
			fail(i, "stream context done differs from finished after %s", op.Kind)
			return
		}
		if (st.Context().Err() != nil) != m.Finished() {
			fail(i, "stream context error differs from finished after %s", op.Kind)
			return
		}
		select {
		case <-st.Terminated():
			if !m.Term {
				fail(i, "Terminated() closed early")
				return
			}
		default:
			if m.Term {
				fail(i, "Terminated() not closed")
				return
			}
		}
	}
	// release whatever is still blocked so that nothing leaks into the next case
	st.Cancel(errors.New("teardown"))
	sim.WaitQuiescent()
	for _, p := range pend {
		if !p.res.done {
			fail(len(c.Ops), "a blocked %s did not return after the stream was cancelled", p.what)
			return
		}
	}
	r.Label(fmt.Sprintf("transitions_%d", minInt(transitions, 3)))
	if skipped > 0 {
		r.Label("reader_blocked_steps_skipped")
	}
	if m.Term {
		r.Label("terminated")
	}
	r.NonTrivial = transitions >= 2
	r.Key = fmt.Sprintf("%d|%v", c.Split, c.Ops)
	return
}

func minInt(a, b int) int {
	if a < b {
		return a
	}
	return b
}

var opKinds = []string{"send", "recv", "closesend", "close", "senderror", "cancel", "sendcancel", "rawwrite", "rawflush",
	"r:message", "r:closesend", "r:close", "r:error", "r:shorterror", "r:cancel", "r:invoke", "r:metadata", "r:unknown", "r:unknownctl", "r:foreign",
	"send", "recv", "r:message", "r:message", "recv", "closesend", "r:closesend", "closesend", "r:closesend", "send", "recv", "r:message", "rawwrite", "r:unknownctl", "r:foreign",
	"send", "recv", "r:message", "closesend", "r:closesend"}

var genOp = rapid.Custom(func(t *rapid.T) Op {
	op := Op{Kind: rapid.SampledFrom(opKinds).Draw(t, "kind"), Size: rapid.SampledFrom([]int{0, 1, 5, 20}).Draw(t, "size"), Arg: rapid.IntRange(0, 2).Draw(t, "arg")}
	switch op.Kind {
	case "rawwrite":
		op.Arg = rapid.SampledFrom([]int{1, 2, 7, 2}).Draw(t, "rawkind")
	case "r:unknown", "r:unknownctl":
		op.Arg = rapid.SampledFrom([]int{0, 8, 9, 33, 63}).Draw(t, "unkkind")
	}
	return op
})

func TestC03Sequential(t *testing.T) {
	gen := func(t *rapid.T) c03Case {
		return c03Case{Split: rapid.SampledFrom([]int{0, 3, -1}).Draw(t, "split"), Ops: rapid.SliceOfN(genOp, 1, 12).Draw(t, "ops")}
	}
	pbt.Check(t, pbt.Prop[c03Case]{ID: "C03", Name: "sequential", Gen: gen, Run: runC03})
}

// ---- parked-sink part: a write is held inside the transport while other calls are issued -----

type c03ParkCase struct {
	Split     int
	ParkWrite int // which sink write parks (1-based)
	ReleaseAt int // step index after which the parked write is released (before running that step)
	Ops       []Op
	// WriterBuf: size of the frame writer's buffer (1 = every frame is written through; larger = frames
	// stay corked until a flush, e.g. the one the first receive performs)
	WriterBuf int
	// FailRelease: the parked write fails when it is released (the transport was closed under it)
	FailRelease bool
	// stream options that are off by default
	ManualFlush bool
	MaxBuf      int
	// AtPoint: instead of a write held in the transport, the first call that reaches this scheduling point inside the
	// stream is held there until the release step ("" = hold a transport write as usual)
	AtPoint string
}

func runC03Parked(c c03ParkCase) (r pbt.Result) {
	sk := &sink{parkAt: c.ParkWrite, parked: make(chan struct{})}
	var pts *sim.Points
	if c.AtPoint != "" {
		sk.parkAt = 0
		pts = sim.NewPoints([]string{c.AtPoint})
		pts.Limit = 1
		pts.Install()
		defer pts.Uninstall()
	}
	releasePoint := func() {
		if pts != nil {
			for _, a := range pts.Parked() {
				pts.Release(a)
			}
			pts.Uninstall()
		}
	}
	defer releasePoint()
	if c.FailRelease {
		sk.fail = errors.New("sink: transport closed under the write")
	}
	wbuf := c.WriterBuf
	if wbuf == 0 {
		wbuf = 1
	}
	wr := drpcwire.NewWriter(sk, wbuf)
	st := drpcstream.NewWithOptions(context.Background(), sid, wr, drpcstream.Options{SplitSize: c.Split, ManualFlush: c.ManualFlush, MaximumBufferSize: c.MaxBuf})
	type call struct {
		op  Op
		res *callResult
	}
	var calls []call
	fail := func(step int, f string, a ...any) {
		r.Fail = fmt.Sprintf(f, a...)
		r.Detail = fmt.Sprintf("at step %d of %+v", step, c)
	}
	released := false
	termAt, termLocal := -1, false
	bytesAtTerm, parkedAtTerm, parkLenAtTerm := 0, false, 0
	readerBusy := func() bool {
		for _, cl := range calls {
			if strings.HasPrefix(cl.op.Kind, "r:") && !cl.res.done {
				return true
			}
		}
		return false
	}
	overlapped := false
	observe := func(step int, cause string) bool {
		sim.WaitQuiescent()
		sk.mu.Lock()
		parked := sk.isPark
		sk.mu.Unlock()
		term, fin := st.IsTerminated(), st.IsFinished()
		if fin && !term {
			fail(step, "finished without being terminated")
			return false
		}
		select {
		case <-st.Context().Done():
			// the stream's context ends when the stream is finished, not earlier: Conn.Unblocked (and with it the
			// connection pool) takes it as "this stream no longer uses the transport"
			if !fin {
				fail(step, "the stream's context is done although the stream is not finished")
				return false
			}
		default:
			if fin {
				fail(step, "the stream is finished but its context is not done")
				return false
			}
		}
		if parked && fin {
			fail(step, "stream reported finished while a write is still inside the transport")
			return false
		}
		pending := 0
		for _, cl := range calls {
			if !cl.res.done {
				pending++
			}
		}
		if parked && pending >= 2 {
			overlapped = true
		}
		if term && termAt < 0 {
			termAt = step
			termLocal = cause == "close" || cause == "senderror" || cause == "sendcancel" || cause == "closesend" || cause == "release"
			bytesAtTerm, parkedAtTerm = sk.len(), parked
			sk.mu.Lock()
			parkLenAtTerm = sk.parkLen
			sk.mu.Unlock()
		}
		if term && !parked && pending == 0 && !fin {
			fail(step, "terminated with no call in flight but not finished")
			return false
		}
		return true
	}
	nremote := 0
	for i, op := range c.Ops {
		if i == c.ReleaseAt && !released {
			released = true
			close(sk.parked)
			releasePoint()
			if !observe(i, "release") {
				return
			}
		}
		if strings.HasPrefix(op.Kind, "r:") && readerBusy() {
			continue
		}
		if op.Kind == "r:message" {
			op.Arg = nremote
			nremote++
		}
		res := &callResult{}
		calls = append(calls, call{op, res})
		go func(op Op) {
			defer func() { res.done = true }()
			var msg []byte
			switch op.Kind {
			case "send":
				p := make([]byte, op.Size)
				res.err = st.MsgSend(&p, rawEnc{})
			case "rawwrite":
				res.err = st.RawWrite(drpcwire.Kind(op.Arg), make([]byte, op.Size))
			case "rawflush":
				res.err = st.RawFlush()
			case "recv":
				res.err = st.MsgRecv(&msg, rawEnc{})
			case "closesend":
				res.err = st.CloseSend()
			case "close":
				res.err = st.Close()
			case "senderror":
				res.err = st.SendError(callerErrs[op.Arg%len(callerErrs)])
			case "cancel":
				res.b = st.Cancel(callerErrs[op.Arg%len(callerErrs)])
			case "sendcancel":
				res.b, res.err = st.SendCancel(callerErrs[op.Arg%len(callerErrs)])
			default:
				pkt := drpcwire.Packet{ID: drpcwire.ID{Stream: sid, Message: 1}}
				switch op.Kind {
				case "r:message":
					pkt.Kind, pkt.Data = drpcwire.KindMessage, remoteMsg(op.Arg, op.Size)
				case "r:closesend":
					pkt.Kind = drpcwire.KindCloseSend
				case "r:close":
					pkt.Kind = drpcwire.KindClose
				case "r:error", "r:shorterror":
					pkt.Kind, pkt.Data = drpcwire.KindError, marshalRemote(remoteErrs[op.Arg%len(remoteErrs)])
				case "r:cancel":
					pkt.Kind, pkt.Control = drpcwire.KindCancel, true
				case "r:invoke":
					pkt.Kind = drpcwire.KindInvoke
				case "r:metadata":
					pkt.Kind = drpcwire.KindInvokeMetadata
				case "r:unknown":
					pkt.Kind = drpcwire.Kind(op.Arg)
				case "r:unknownctl":
					pkt.Kind, pkt.Control = drpcwire.Kind(op.Arg), true
				case "r:foreign":
					pkt.ID.Stream = sid + 1
					pkt.Kind = drpcwire.KindMessage
				}
				res.err = st.HandlePacket(pkt)
			}
		}(op)
		if !observe(i, op.Kind) {
			return
		}
	}
	if !released {
		released = true
		close(sk.parked)
		releasePoint()
	}
	if !observe(len(c.Ops), "release") {
		return
	}
	// after the release: nothing may stay blocked except receives / deliveries on an unterminated stream
	for _, cl := range calls {
		if !cl.res.done {
			if st.IsTerminated() || !(cl.op.Kind == "recv" || cl.op.Kind == "r:message") {
				fail(len(c.Ops), "%s is still blocked after the transport released the write", cl.op.Kind)
				return
			}
		}
	}
	// emission rules on everything written
	all := sk.bytesFrom(0)
	off := 0
	var lastID uint64
	var curID uint64
	curOpen := false
	var after []emission // packets started after the termination point
	for rest := all; len(rest) > 0; {
		fr, rem, cls := ref.ParseFrame(rest)
		if cls != ref.OK {
			fail(len(c.Ops), "the stream wrote bytes that are not whole frames")
			return
		}
		start := off
		off += len(rest) - len(rem)
		rest = rem
		if !curOpen || fr.Message != curID {
			if fr.Message <= lastID {
				fail(len(c.Ops), "message ids are not strictly increasing")
				return
			}
			lastID, curID, curOpen = fr.Message, fr.Message, true
			if termAt >= 0 && start >= bytesAtTerm && !(parkedAtTerm && start < bytesAtTerm+parkLenAtTerm) {
				after = append(after, emission{Kind: fr.Kind, Control: fr.Control})
			}
		} else if termAt >= 0 && start > bytesAtTerm && fr.Kind == 2 && !(parkedAtTerm && start < bytesAtTerm+parkLenAtTerm) {
			// a further frame of a message that was in progress when the stream terminated
			if !termLocal || start > bytesAtTerm {
				after = append(after, emission{Kind: 100 + fr.Kind})
			}
		}
		if fr.Done {
			curOpen = false
		}
	}
	for _, e := range after {
		terminal := e.Kind == 3 || e.Kind == 4 || e.Kind == 5 || e.Kind == 6
		if !termLocal || !terminal {
			fail(len(c.Ops), "a packet was emitted after the stream had been terminated")
			r.Detailf("after=%+v termAt=%d local=%v", after, termAt, termLocal)
			return
		}
	}
	if len(after) > 1 {
		fail(len(c.Ops), "more than one packet was emitted after termination")
		return
	}
	st.Cancel(errors.New("teardown"))
	sim.WaitQuiescent()
	for _, cl := range calls {
		if !cl.res.done {
			fail(len(c.Ops), "%s did not return after the stream was cancelled", cl.op.Kind)
			return
		}
	}
	if overlapped {
		r.Label("parked_write_overlapped_other_calls")
	}
	if wbuf > 1 {
		r.Label("corked_writer")
	}
	if c.FailRelease {
		r.Label("parked_write_failed")
	}
	if c.ManualFlush {
		r.Label("manual_flush")
	}
	if c.AtPoint != "" {
		r.Label("call_held_at_a_scheduling_point")
	}
	if termAt >= 0 {
		r.Label("terminated")
		if parkedAtTerm {
			r.Label("terminated_while_write_parked")
		}
	}
	r.NonTrivial = overlapped
	r.Key = fmt.Sprintf("%+v", c)
	return
}

func TestC03Parked(t *testing.T) {
	gen := func(t *rapid.T) c03ParkCase {
		c := c03ParkCase{Split: rapid.SampledFrom([]int{0, 3, -1}).Draw(t, "split"), ParkWrite: rapid.IntRange(1, 4).Draw(t, "park")}
		c.Ops = rapid.SliceOfN(genOp, 2, 12).Draw(t, "ops")
		c.ReleaseAt = rapid.IntRange(1, 12).Draw(t, "release")
		c.WriterBuf = rapid.SampledFrom([]int{1, 1, 64, 4096}).Draw(t, "wbuf")
		c.FailRelease = rapid.IntRange(0, 2).Draw(t, "failrelease") == 0
		c.ManualFlush = rapid.IntRange(0, 3).Draw(t, "manualflush") == 0
		c.MaxBuf = rapid.SampledFrom([]int{0, 0, 1, 16}).Draw(t, "maxbuf")
		if rapid.IntRange(0, 3).Draw(t, "atpoint") == 0 {
			// points in front of a lock or of a flush that re-checks the state; the points that sit between a state
			// check and the write it guards are left out: a call held there overlaps the termination, and its packet
			// counts as written before it
			c.AtPoint = rapid.SampledFrom([]string{"stream.MsgSend.beforeFlush", "stream.MsgSend.beforeFlush", "stream.MsgSend.beforeWriteLock", "stream.RawWrite.beforeWriteLock",
				"stream.RawFlush.beforeWriteLock", "stream.MsgRecv.beforeReadLock", "stream.checkFinished", "stream.Close.beforeWriteLock", "stream.CloseSend.beforeWriteLock"}).Draw(t, "point")
		}
		return c
	}
	pbt.Check(t, pbt.Prop[c03ParkCase]{ID: "C03", Name: "parked", Gen: gen, Run: runC03Parked})
}
