package stream

import (
	"context"
	"fmt"
	"testing"

	"pgregory.net/rapid"
	"storj.io/drpc/drpcerr"
	"storj.io/drpc/drpcstream"
	"storj.io/drpc/drpcwire"

	"verif/pbt"
)

// C03, metamorphic: what a receive reports after the peer has ended the stream (half-close, close, error, cancel)
// is fixed by the state machine; data the application has written but not flushed (ManualFlush, or a corked first
// write) cannot be sent any more and must not change it. The same history is run twice, without and with such
// pending data, and every receive must report the same thing both times.

type recvEndCase struct {
	ManualFlush bool
	WriterBuf   int  // > 1, so that writes stay in the writer until a flush
	Flushed     int  // messages sent and flushed before the end (0..2)
	Pending     int  // messages written but not flushed when the peer ends the stream (second run only; 1..2)
	Buffered    int  // messages of the peer that arrived before its terminal packet (0..1)
	End         string // closesend close error cancel
	ErrIdx      int
	Recvs       int // receives issued afterwards (1..3)
}

func recvOutcome(err error, data []byte) string {
	if err == nil {
		return fmt.Sprintf("msg:%x", data)
	}
	return fmt.Sprintf("err:%q code:%d", err.Error(), drpcerr.Code(err))
}

func playRecvEnd(c recvEndCase, pending bool) (out []string, harnessErr string) {
	sk := &sink{}
	wr := drpcwire.NewWriter(sk, c.WriterBuf)
	st := drpcstream.NewWithOptions(context.Background(), sid, wr, drpcstream.Options{ManualFlush: c.ManualFlush})
	for i := 0; i < c.Flushed; i++ {
		p := []byte{byte(i)}
		if err := st.MsgSend(&p, rawEnc{}); err != nil {
			return nil, "send before the end failed"
		}
		if err := st.RawFlush(); err != nil {
			return nil, "flush before the end failed"
		}
	}
	if pending {
		for i := 0; i < c.Pending; i++ {
			// written into the frame writer, not flushed
			if err := st.RawWrite(drpcwire.KindMessage, []byte{0xee, byte(i)}); err != nil {
				return nil, "write before the end failed"
			}
		}
	}
	deliver := func(pkt drpcwire.Packet) { go func() { _ = st.HandlePacket(pkt) }() }
	mid := uint64(0)
	next := func() drpcwire.ID { mid++; return drpcwire.ID{Stream: sid, Message: mid} }
	var got []string
	recv := func() {
		var b []byte
		err := st.MsgRecv(&b, rawEnc{})
		got = append(got, recvOutcome(err, b))
	}
	nrecv := c.Recvs
	if c.Buffered > 0 {
		// a message of the peer that is waiting when the terminal packet arrives: the first receive takes it
		deliver(drpcwire.Packet{ID: next(), Kind: drpcwire.KindMessage, Data: []byte("buffered")})
		recv()
		nrecv--
	}
	pkt := drpcwire.Packet{ID: next()}
	switch c.End {
	case "closesend":
		pkt.Kind = drpcwire.KindCloseSend
	case "close":
		pkt.Kind = drpcwire.KindClose
	case "error":
		pkt.Kind, pkt.Data = drpcwire.KindError, marshalRemote(remoteErrs[c.ErrIdx%len(remoteErrs)])
	default:
		pkt.Kind, pkt.Control = drpcwire.KindCancel, true
	}
	if err := st.HandlePacket(pkt); err != nil {
		return nil, "terminal packet rejected"
	}
	for i := 0; i < nrecv; i++ {
		recv()
	}
	st.Cancel(context.Canceled)
	return got, ""
}

func runRecvEnd(c recvEndCase) (r pbt.Result) {
	plain, h1 := playRecvEnd(c, false)
	with, h2 := playRecvEnd(c, true)
	if h1 != "" || h2 != "" {
		r.Failf("harness: %s%s", h1, h2)
		return
	}
	if fmt.Sprint(plain) != fmt.Sprint(with) {
		r.Failf("data written but not flushed changed what a receive reports after the peer ended the stream")
		r.Detailf("case=%+v\nwithout pending data: %v\nwith pending data:    %v", c, plain, with)
		return
	}
	r.Label("end_" + c.End)
	if c.ManualFlush {
		r.Label("manual_flush")
	} else {
		r.Label("corked_first_write")
	}
	r.NonTrivial = true
	r.Key = fmt.Sprintf("%+v", c)
	r.Sample = map[string]any{"case": c, "receives": plain}
	return
}

func TestC03RecvAfterEnd(t *testing.T) {
	gen := func(t *rapid.T) recvEndCase {
		c := recvEndCase{ManualFlush: rapid.Bool().Draw(t, "manualflush"), WriterBuf: rapid.SampledFrom([]int{64, 4096}).Draw(t, "wbuf"),
			Pending: rapid.IntRange(1, 2).Draw(t, "pending"), Buffered: rapid.IntRange(0, 1).Draw(t, "buffered"),
			End: rapid.SampledFrom([]string{"closesend", "close", "error", "cancel"}).Draw(t, "end"), ErrIdx: rapid.IntRange(0, 2).Draw(t, "erridx"),
			Recvs: rapid.IntRange(1, 3).Draw(t, "recvs")}
		if c.ManualFlush {
			c.Flushed = rapid.IntRange(0, 2).Draw(t, "flushed")
		}
		// without ManualFlush the only unflushed data there can be is what was written before the first flush
		return c
	}
	pbt.Check(t, pbt.Prop[recvEndCase]{ID: "C03", Name: "recv_after_end", Gen: gen, Run: runRecvEnd})
}
