// Copyright (C) 2019 Storj Labs, Inc.
// See LICENSE for copying information.

// Package drpcserver allows one to execute registered rpcs.
package drpcserver

import "github.com/spacemonkeygo/monkit/v3"

var mon = monkit.Package()
