// Copyright (C) 2019 Storj Labs, Inc.
// See LICENSE for copying information.

package drpcserver

import (
	"context"
	"net"

	"github.com/zeebo/errs"

	"verif/old/drpc"
	"verif/old/drpc/drpccache"
	"verif/old/drpc/drpcctx"
	"verif/old/drpc/drpcmanager"
	"verif/old/drpc/drpcstream"
)

// Options controls configuration settings for a server.
type Options struct {
	// Manager controls the options we pass to the managers this server creates.
	Manager drpcmanager.Options
}

// Server is an implementation of drpc.Server to serve drpc connections.
type Server struct {
	opts    Options
	handler drpc.Handler
}

// New constructs a new Server.
func New(handler drpc.Handler) *Server {
	return NewWithOptions(handler, Options{})
}

// NewWithOptions constructs a new Server using the provided options to tune
// how the drpc connections are handled.
func NewWithOptions(handler drpc.Handler, opts Options) *Server {
	return &Server{
		opts:    opts,
		handler: handler,
	}
}

// ServeOne serves a single set of rpcs on the provided transport.
func (s *Server) ServeOne(ctx context.Context, tr drpc.Transport) (err error) {
	defer mon.Task()(&ctx)(&err)

	man := drpcmanager.NewWithOptions(tr, s.opts.Manager)
	defer func() { err = errs.Combine(err, man.Close()) }()

	cache := drpccache.New()
	defer cache.Clear()

	ctx = drpccache.WithContext(ctx, cache)

	for {
		stream, rpc, err := man.NewServerStream(ctx)
		if err != nil {
			return errs.Wrap(err)
		}
		if err := s.handleRPC(stream, rpc); err != nil {
			return errs.Wrap(err)
		}
	}
}

// Serve listens for connections on the listener and serves the drpc request
// on new connections.
func (s *Server) Serve(ctx context.Context, lis net.Listener) (err error) {
	defer mon.Task()(&ctx)(&err)

	tracker := drpcctx.NewTracker(ctx)
	defer tracker.Cancel()

	tracker.Run(func(ctx context.Context) {
		<-ctx.Done()
		_ = lis.Close()
	})

	for {
		conn, err := lis.Accept()
		if err != nil {
			// TODO(jeff): temporary errors?
			select {
			case <-ctx.Done():
				tracker.Wait()
				return nil
			default:
				tracker.Cancel()
				tracker.Wait()
				return errs.Wrap(err)
			}
		}

		// TODO(jeff): connection limits?
		tracker.Run(func(ctx context.Context) {
			// TODO(jeff): handle this error?
			_ = s.ServeOne(ctx, conn)
		})
	}
}

// handleRPC handles the rpc that has been requested by the stream.
func (s *Server) handleRPC(stream *drpcstream.Stream, rpc string) (err error) {
	ctx := stream.Context()
	defer mon.Task()(&ctx)(&err)
	defer mon.TaskNamed("handle" + rpc)(&ctx)(&err)
	mon.Event("incoming_requests")

	err = s.handler.HandleRPC(stream, rpc)
	if err != nil {
		return errs.Wrap(stream.SendError(err))
	}
	return errs.Wrap(stream.CloseSend())
}
