// Copyright (C) 2019 Storj Labs, Inc.
// See LICENSE for copying information.

// Package drpcwire provides low level helpers for the drpc wire protocol.
package drpcwire

import "github.com/spacemonkeygo/monkit/v3"

var mon = monkit.Package()
