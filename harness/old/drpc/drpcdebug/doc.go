// Copyright (C) 2019 Storj Labs, Inc.
// See LICENSE for copying information.

// Package drpcdebug provides helpers for debugging.
package drpcdebug
