// Copyright (C) 2019 Storj Labs, Inc.
// See LICENSE for copying information.

// +build debug

package drpcdebug

import (
	"log"
	"os"
)

var logger = log.New(os.Stderr, "", 0)

// Log executes the callback for a string to log if built with the debug tag.
func Log(cb func() string) {
	logger.Output(2, "\t"+cb())
}
