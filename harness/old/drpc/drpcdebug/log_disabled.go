// Copyright (C) 2019 Storj Labs, Inc.
// See LICENSE for copying information.

// +build !debug

package drpcdebug

// Log executes the callback for a string to log if built with the debug tag.
func Log(cb func() string) {}
