// Copyright (C) 2019 Storj Labs, Inc.
// See LICENSE for copying information.

package drpcmanager

import (
	"context"
	"fmt"
	"sync"
	"time"

	"github.com/zeebo/errs"

	"verif/old/drpc"
	"verif/old/drpc/drpcctx"
	"verif/old/drpc/drpcdebug"
	"verif/old/drpc/drpcmetadata"
	"verif/old/drpc/drpcsignal"
	"verif/old/drpc/drpcstream"
	"verif/old/drpc/drpcwire"
)

var managerClosed = errs.New("manager closed")

// Options controls configuration settings for a manager.
type Options struct {
	// WriterBufferSize controls the size of the buffer that we will fill before
	// flushing. Normal writes to streams typically issue a flush explicitly.
	WriterBufferSize int

	// Stream are passed to any streams the manager creates.
	Stream drpcstream.Options

	// InactivityTimeout is the amount of time the manager will wait when creating
	// a NewServerStream. It only includes the time it is reading packets from the
	// remote client. In other words, it only includes the time that the client
	// could delay before invoking an RPC. If zero, a default timeout of 30s is
	// used. If negative, no timeout is used.
	InactivityTimeout time.Duration
}

// Manager handles the logic of managing a transport for a drpc client or server.
// It ensures that the connection is always being read from, that it is closed
// in the case that the manager is and forwarding drpc protocol messages to the
// appropriate stream.
type Manager struct {
	tr   drpc.Transport
	wr   *drpcwire.Writer
	rd   *drpcwire.Reader
	opts Options

	once sync.Once

	sid   uint64
	sem   chan struct{}
	term  drpcsignal.Signal // set when the manager should start terminating
	read  drpcsignal.Signal // set after the goroutine reading from the transport is done
	tport drpcsignal.Signal // set after the transport has been closed
	queue chan drpcwire.Packet
	prev  *drpcstream.Stream
}

// New returns a new Manager for the transport.
func New(tr drpc.Transport) *Manager {
	return NewWithOptions(tr, Options{})
}

// NewWithOptions returns a new manager for the transport. It uses the provided
// options to manage details of how it uses it.
func NewWithOptions(tr drpc.Transport, opts Options) *Manager {
	m := &Manager{
		tr:   tr,
		wr:   drpcwire.NewWriter(tr, opts.WriterBufferSize),
		rd:   drpcwire.NewReader(tr),
		opts: opts,

		// this semaphore controls the number of concurrent streams. it MUST be 1.
		sem:   make(chan struct{}, 1),
		queue: make(chan drpcwire.Packet),
	}

	go m.manageTransport()
	go m.manageReader()

	return m
}

//
// helpers
//

// poll checks if a channel is immediately ready.
func poll(ch <-chan struct{}) bool {
	select {
	case <-ch:
		return true
	default:
		return false
	}
}

// poll checks if the context is canceled or the manager is terminated.
func (m *Manager) poll(ctx context.Context) error {
	switch {
	case poll(ctx.Done()):
		return ctx.Err()

	case poll(m.term.Signal()):
		return m.term.Err()

	default:
		return nil
	}
}

// acquireSemaphore attempts to acquire the semaphore protecting streams. If the
// context is canceled or the manager is terminated, it returns an error.
func (m *Manager) acquireSemaphore(ctx context.Context) error {
	if err := m.poll(ctx); err != nil {
		return err
	}
	select {
	case <-ctx.Done():
		return ctx.Err()

	case <-m.term.Signal():
		return m.term.Err()

	case m.sem <- struct{}{}:
		return nil
	}
}

//
// exported interface
//

// Closed returns if the manager has been closed.
func (m *Manager) Closed() bool {
	return m.term.IsSet()
}

// Close closes the transport the manager is using.
func (m *Manager) Close() error {
	// when closing, we set the manager terminated signal, wait for the goroutine
	// managing the transport to notice and close it, acquire the semaphore to ensure
	// there are streams running, then wait for the goroutine reading packets to be done.
	// we protect it with a once to ensure both that we only do this once, and that
	// concurrent calls are sure that it has fully executed.

	m.once.Do(func() {
		m.term.Set(managerClosed)
		<-m.tport.Signal()
		m.sem <- struct{}{}
		<-m.read.Signal()
	})

	return m.tport.Err()
}

// waitForPreviousStream will, if there was a previous stream, ensure it is Closed and
// then wait until it is in the Finished state, where it will no longer make any
// reads or writes on the transport. It exits early if the context is canceled or
// the manager is terminated.
func (m *Manager) waitForPreviousStream(ctx context.Context) (err error) {
	if m.prev == nil {
		return nil
	}

	if err := m.prev.Close(); err != nil {
		return err
	}

	select {
	case <-m.prev.Finished():
		return nil

	case <-m.term.Signal():
		return m.term.Err()

	case <-ctx.Done():
		return ctx.Err()
	}
}

// newStream creates a stream value with the appropriate configuration for this manager.
func (m *Manager) newStream(ctx context.Context, sid uint64) *drpcstream.Stream {
	return drpcstream.NewWithOptions(drpcctx.WithTransport(ctx, m.tr), sid, m.wr, m.opts.Stream)
}

// NewClientStream starts a stream on the managed transport for use by a client.
func (m *Manager) NewClientStream(ctx context.Context) (stream *drpcstream.Stream, err error) {
	if err := m.acquireSemaphore(ctx); err != nil {
		return nil, err
	}

	if err := m.waitForPreviousStream(ctx); err != nil {
		return nil, err
	}

	m.sid++
	stream = m.newStream(ctx, m.sid)
	m.prev = stream
	go m.manageStream(ctx, stream)

	return stream, nil
}

// NewServerStream starts a stream on the managed transport for use by a server. It does
// this by waiting for the client to issue an invoke message and returning the details.
func (m *Manager) NewServerStream(ctx context.Context) (stream *drpcstream.Stream, rpc string, err error) {
	if err := m.acquireSemaphore(ctx); err != nil {
		return nil, "", err
	}

	var metadata drpcwire.Packet
	var timeoutCh <-chan time.Time

	// set up the timeout channel if necessary.
	if timeout := m.opts.InactivityTimeout; timeout >= 0 {
		if timeout == 0 {
			timeout = 30 * time.Second
		}
		timer := time.NewTimer(timeout)
		defer timer.Stop()
		timeoutCh = timer.C
	}

	for {
		select {
		case <-timeoutCh:
			<-m.sem
			return nil, "", context.DeadlineExceeded

		case <-ctx.Done():
			<-m.sem
			return nil, "", ctx.Err()

		case <-m.term.Signal():
			<-m.sem
			return nil, "", m.term.Err()

		case pkt := <-m.queue:
			switch pkt.Kind {
			case drpcwire.KindInvokeMetadata:
				// keep track of any metadata being sent before an invoke so that we can
				// include it if the stream id matches the eventual invoke.
				metadata = pkt
				continue

			case drpcwire.KindInvoke:
				if metadata.ID.Stream == pkt.ID.Stream {
					md, err := drpcmetadata.Decode(metadata.Data)
					if err != nil {
						return nil, "", err
					}
					ctx = drpcmetadata.AddPairs(ctx, md)
				}

				if err := m.waitForPreviousStream(ctx); err != nil {
					return nil, "", err
				}

				stream = m.newStream(ctx, pkt.ID.Stream)
				m.prev = stream
				go m.manageStream(ctx, stream)

				return stream, string(pkt.Data), nil

			default:
				// we ignore packets that aren't invokes because perhaps older streams have
				// messages in the queue sent concurrently with our notification to them
				// that the stream they were sent for is done.
				continue
			}
		}
	}
}

//
// manage transport
//

// manageTransport ensures that if the manager's term signal is ever set, then
// the underlying transport is closed and the error is recorded.
func (m *Manager) manageTransport() {
	<-m.term.Signal()
	m.tport.Set(m.tr.Close())
}

//
// manage reader
//

// manageReader is always reading a packet and sending it into the queue of packets
// the manager has. It sets the read signal when it exits so that one can wait to
// ensure that no one is reading on the reader. It sets the term signal if there is
// any error reading packets.
func (m *Manager) manageReader() {
	defer m.read.Set(managerClosed)

	for {
		pkt, err := m.rd.ReadPacket()
		if err != nil {
			m.term.Set(errs.Wrap(err))
			return
		}

		drpcdebug.Log(func() string { return fmt.Sprintf("MAN[%p]: %v", m, pkt) })

		select {
		case <-m.term.Signal():
			return

		case m.queue <- pkt:
		}
	}
}

//
// manage stream
//

// manageStream watches the context and the stream and returns when the stream is
// finished, canceling the stream if the context is canceled.
func (m *Manager) manageStream(ctx context.Context, stream *drpcstream.Stream) {
	defer mon.Task()(&ctx)(nil)

	// create a wait group, launch the workers, and wait for them
	wg := new(sync.WaitGroup)
	wg.Add(2)
	go m.manageStreamPackets(ctx, wg, stream)
	go m.manageStreamContext(ctx, wg, stream)
	wg.Wait()

	// release semaphore
	<-m.sem
}

// manageStreamPackets repeatedly reads from the queue of packets and asks the stream to
// handle them. If there is an error handling a packet, that is considered to
// be fatal to the manager, so we set term. HandlePacket also returns a bool to
// indicate that the stream requires no more packets, and so manageStream can
// just exit. It releases the semaphore whenever it exits.
func (m *Manager) manageStreamPackets(ctx context.Context, wg *sync.WaitGroup, stream *drpcstream.Stream) {
	defer mon.Task()(&ctx)(nil)
	defer wg.Done()

	for {
		select {
		case <-m.term.Signal():
			stream.Cancel(context.Canceled)
			return

		case <-stream.Terminated():
			return

		case pkt := <-m.queue:
			ok, err := stream.HandlePacket(pkt)
			if err != nil {
				m.term.Set(errs.Wrap(err))
				return
			} else if !ok {
				return
			}
		}
	}
}

// manageStreamContext ensures that if the stream context is canceled, we inform the stream and
// possibly abort the underlying transport if the stream isn't finished.
func (m *Manager) manageStreamContext(ctx context.Context, wg *sync.WaitGroup, stream *drpcstream.Stream) {
	defer mon.Task()(&ctx)(nil)
	defer wg.Done()

	select {
	case <-m.term.Signal():
		stream.Cancel(context.Canceled)
		return

	case <-stream.Terminated():
		return

	case <-ctx.Done():
		// If the stream isn't already finished, we have to terminate the transport
		// to do an active cancel. If it is already finished, there is no need.
		isFinished := stream.IsFinished()
		stream.Cancel(ctx.Err())
		if !isFinished {
			drpcdebug.Log(func() string { return fmt.Sprintf("MAN[%p][%p]: unfinished", m, stream) })
			m.term.Set(ctx.Err())
		}
	}
}
