// Copyright (C) 2019 Storj Labs, Inc.
// See LICENSE for copying information.

// Package drpcmanager reads packets from a transport to make streams.
package drpcmanager

import "github.com/spacemonkeygo/monkit/v3"

var mon = monkit.Package()
