// Copyright (C) 2019 Storj Labs, Inc.
// See LICENSE for copying information.

// Package drpcsignal holds a helper type to signal errors.
package drpcsignal
