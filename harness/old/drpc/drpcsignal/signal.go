// Copyright (C) 2019 Storj Labs, Inc.
// See LICENSE for copying information.

package drpcsignal

import (
	"sync"
	"sync/atomic"
)

// Signal contains an error value that can be set one and exports
// a number of ways to inspect it.
type Signal struct {
	set uint32
	on  sync.Once
	mu  sync.Mutex
	sig chan struct{}
	err error
}

func (s *Signal) init() { s.sig = make(chan struct{}) }

// Signal returns a channel that will be closed when the signal is set.
func (s *Signal) Signal() chan struct{} {
	s.on.Do(s.init)
	return s.sig
}

// Set stores the error in the signal. It only keeps track of the first
// error set, and returns true if it was the first error set.
func (s *Signal) Set(err error) (ok bool) {
	if atomic.LoadUint32(&s.set) != 0 {
		return false
	}
	return s.setSlow(err)
}

// setSlow is the slow path for Set, so that the fast path is inlined into
// callers.
func (s *Signal) setSlow(err error) (ok bool) {
	s.mu.Lock()
	if s.set == 0 {
		s.err = err
		atomic.StoreUint32(&s.set, 1)
		s.on.Do(s.init)
		close(s.sig)
		ok = true
	}
	s.mu.Unlock()
	return ok
}

// Get returns the error set with the signal and a boolean indicating if
// the result is valid.
func (s *Signal) Get() (error, bool) { //nolint
	if atomic.LoadUint32(&s.set) != 0 {
		return s.err, true
	}
	return nil, false
}

// IsSet returns true if the Signal is set.
func (s *Signal) IsSet() bool {
	return atomic.LoadUint32(&s.set) != 0
}

// Err returns the error stored in the signal. Since one can store a nil error
// care must be taken. A non-nil error returned from this method means that
// the Signal has been set, but the inverse is not true.
func (s *Signal) Err() error {
	if atomic.LoadUint32(&s.set) != 0 {
		return s.err
	}
	return nil
}
