// Copyright (C) 2020 Storj Labs, Inc.
// See LICENSE for copying information.

package drpcmux

import (
	"bytes"
	"context"
	"encoding/json"
	"io"
	"net/http"
	"net/textproto"
	"reflect"

	"github.com/gogo/protobuf/jsonpb"
	"github.com/zeebo/errs"

	"verif/old/drpc"
	"verif/old/drpc/drpcerr"
)

// ServeHTTP handles unitary rpcs over an http request. The rpcs are hosted at a
// path based on their name, like `/service.Server/Method` and accept the request
// protobuf in json. The response will either be of the form
//
//    {
//      "status": "ok",
//      "response": ...
//    }
//
// if the request was successful, or
//
//    {
//      "status": "error",
//      "error": ...,
//      "code": ...
//    }
//
// where error is a textual description of the error, and code is the numeric code
// that was set with drpcerr, if any.
//
// Metadata can be attached by adding the "X-Drpc-Metadata" header to the request
// possibly multiple times. The format is
//
//     X-Drpc-Metadata: percentEncode(key)=percentEncode(value)
//
// where percentEncode is the encoding used for query strings. Only the '%' and '='
// characters are necessary to be escaped.
func (m *Mux) ServeHTTP(w http.ResponseWriter, req *http.Request) {
	ctx, err := buildContext(req.Context(), headerValues(req.Header, "X-Drpc-Metadata"))
	if err != nil {
		http.Error(w, err.Error(), http.StatusInternalServerError)
		return
	}

	data, err := m.serveHTTP(ctx, req.URL.Path, req.Body)
	if err != nil {
		data, err = json.MarshalIndent(map[string]interface{}{
			"status": "error",
			"error":  err.Error(),
			"code":   drpcerr.Code(err),
		}, "", "  ")
	} else {
		data, err = json.MarshalIndent(map[string]interface{}{
			"status":   "ok",
			"response": json.RawMessage(data),
		}, "", " ")
	}
	if err != nil {
		http.Error(w, err.Error(), http.StatusInternalServerError)
		return
	}

	w.Header().Set("Content-Type", "application/json")
	_, _ = w.Write(data)
}

func (m *Mux) serveHTTP(ctx context.Context, rpc string, body io.Reader) ([]byte, error) {
	data, ok := m.rpcs[rpc]
	if !ok {
		return nil, drpc.ProtocolError.New("unknown rpc: %q", rpc)
	} else if !data.unitary {
		return nil, drpc.ProtocolError.New("non-unitary rpc: %q", rpc)
	}

	in, ok := reflect.New(data.in1.Elem()).Interface().(drpc.Message)
	if !ok {
		return nil, drpc.InternalError.New("invalid rpc input type")
	}
	if err := jsonpb.Unmarshal(body, in); err != nil {
		return nil, drpc.ProtocolError.Wrap(err)
	}

	out, err := data.receiver(data.srv, ctx, in, nil)
	if err != nil {
		return nil, errs.Wrap(err)
	} else if out == nil {
		return nil, nil
	}

	var buf bytes.Buffer
	if err := (&jsonpb.Marshaler{Indent: "  "}).Marshal(&buf, out); err != nil {
		return nil, drpc.InternalError.Wrap(err)
	}
	return buf.Bytes(), nil
}

func headerValues(h http.Header, key string) []string {
	if h == nil {
		return nil
	}
	return h[textproto.CanonicalMIMEHeaderKey(key)]
}
