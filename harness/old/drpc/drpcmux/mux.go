// Copyright (C) 2019 Storj Labs, Inc.
// See LICENSE for copying information.

package drpcmux

import (
	"reflect"

	"github.com/zeebo/errs"

	"verif/old/drpc"
)

// Mux is an implementation of Handler to serve drpc connections to the
// appropriate Receivers registered by Descriptions.
type Mux struct {
	rpcs map[string]rpcData
}

// New constructs a new Mux.
func New() *Mux {
	return &Mux{
		rpcs: make(map[string]rpcData),
	}
}

var (
	streamType  = reflect.TypeOf((*drpc.Stream)(nil)).Elem()
	messageType = reflect.TypeOf((*drpc.Message)(nil)).Elem()
)

type rpcData struct {
	srv      interface{}
	receiver drpc.Receiver
	in1      reflect.Type
	in2      reflect.Type
	unitary  bool
}

// Register associates the rpcs described by the description in the server.
// It returns an error if there was a problem registering it.
func (m *Mux) Register(srv interface{}, desc drpc.Description) error {
	n := desc.NumMethods()
	for i := 0; i < n; i++ {
		rpc, receiver, method, ok := desc.Method(i)
		if !ok {
			return errs.New("Description returned invalid method for index %d", i)
		}
		if err := m.registerOne(srv, rpc, receiver, method); err != nil {
			return err
		}
	}
	return nil
}

// registerOne does the work to register a single rpc.
func (m *Mux) registerOne(srv interface{}, rpc string, receiver drpc.Receiver, method interface{}) error {
	data := rpcData{srv: srv, receiver: receiver}

	switch mt := reflect.TypeOf(method); {
	// unitary input, unitary output
	case mt.NumOut() == 2:
		data.unitary = true
		data.in1 = mt.In(2)
		if !data.in1.Implements(messageType) {
			return errs.New("input argument not a drpc message: %v", data.in1)
		}

	// unitary input, stream output
	case mt.NumIn() == 3:
		data.in1 = mt.In(1)
		if !data.in1.Implements(messageType) {
			return errs.New("input argument not a drpc message: %v", data.in1)
		}
		data.in2 = streamType

	// stream input
	case mt.NumIn() == 2:
		data.in1 = streamType

	// code gen bug?
	default:
		return errs.New("unknown method type: %v", mt)
	}

	m.rpcs[rpc] = data
	return nil
}
