// Copyright (C) 2019 Storj Labs, Inc.
// See LICENSE for copying information.

// Package drpcmux is a handler to dispatch rpcs to implementations.
package drpcmux
