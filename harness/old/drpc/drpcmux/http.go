// Copyright (C) 2020 Storj Labs, Inc.
// See LICENSE for copying information.

package drpcmux

import (
	"context"
	"strings"

	"github.com/zeebo/errs"

	"verif/old/drpc/drpcmetadata"
)

//
// code to unescape and build the request context metadata
//

// buildContext adds key/value pairs in entries that are of the form
// `urlencode(key)=urlencode(value)` to the passed in context.
func buildContext(ctx context.Context, entries []string) (context.Context, error) {
	for _, entry := range entries {
		var key, value string
		var err error

		index := strings.IndexByte(entry, '=')
		if index >= 0 {
			value, err = unescape(entry[index+1:])
			if err != nil {
				return nil, err
			}
			entry = entry[:index]
		}

		key, err = unescape(entry)
		if err != nil {
			return nil, err
		}

		ctx = drpcmetadata.Add(ctx, key, value)
	}

	return ctx, nil
}

// unhex adds to the accumulator c the numeric value of the hex digit v
// multiplied by the multiplier m and a boolean indicating if the hex
// digit was valid. it compiles to like 3 compares and can be inlined.
func unhex(c, v, m byte) (d byte, ok bool) {
	switch {
	case '0' <= v && v <= '9':
		d = (v - '0')
	case 'a' <= v && v <= 'f':
		d = (v - 'a' + 10)
	case 'A' <= v && v <= 'F':
		d = (v - 'A' + 10)
	default:
		return 0, false
	}
	return c + d*m, true
}

// unescape is an optimized form of url.QueryUnescape that is less general.
func unescape(s string) (string, error) {
	count := strings.Count(s, "%")
	if count == 0 {
		return s, nil
	}

	var t strings.Builder
	t.Grow(len(s) - 2*count)

	for i := uint(0); i < uint(len(s)); i++ {
		switch s[i] {
		case '%':
			if i+2 >= uint(len(s)) {
				return "", errs.New("error unescaping %q: sequence ends", s)
			}

			c, ok := unhex(0, s[i+1], 16)
			if !ok {
				return "", errs.New("error unescaping %q: invalid hex digit", s)
			}

			c, ok = unhex(c, s[i+2], 1)
			if !ok {
				return "", errs.New("error unescaping %q: invalid hex digit", s)
			}

			_ = t.WriteByte(c)
			i += 2

		default:
			_ = t.WriteByte(s[i])
		}
	}

	return t.String(), nil
}
