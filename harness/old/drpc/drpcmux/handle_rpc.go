// Copyright (C) 2020 Storj Labs, Inc.
// See LICENSE for copying information.

package drpcmux

import (
	"reflect"

	"github.com/zeebo/errs"

	"verif/old/drpc"
)

// HandleRPC handles the rpc that has been requested by the stream.
func (m *Mux) HandleRPC(stream drpc.Stream, rpc string) (err error) {
	data, ok := m.rpcs[rpc]
	if !ok {
		return drpc.ProtocolError.New("unknown rpc: %q", rpc)
	}

	in := interface{}(stream)
	if data.in1 != streamType {
		msg, ok := reflect.New(data.in1.Elem()).Interface().(drpc.Message)
		if !ok {
			return drpc.InternalError.New("invalid rpc input type")
		}
		if err := stream.MsgRecv(msg); err != nil {
			return errs.Wrap(err)
		}
		in = msg
	}

	out, err := data.receiver(data.srv, stream.Context(), in, stream)
	switch {
	case err != nil:
		return errs.Wrap(err)
	case out != nil && !reflect.ValueOf(out).IsNil():
		return stream.MsgSend(out)
	default:
		return stream.CloseSend()
	}
}
