// Copyright (C) 2019 Storj Labs, Inc.
// See LICENSE for copying information.

// Package drpc is a light replacement for gprc.
package drpc
