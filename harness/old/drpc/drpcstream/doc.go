// Copyright (C) 2019 Storj Labs, Inc.
// See LICENSE for copying information.

// Package drpcstream sends protobufs using the dprc wire protocol.
//
// ![Stream state machine diagram](./state.png)
package drpcstream

// This go:generate directive creates the state.png from the state.dot file. Because the
// generation outputs different binary data each time, it is protected by an if statement
// to ensure that it only creates the png if the dot file has a newer modification time
// somewhat like a Makefile.
//go:generate bash -c "if [ state.dot -nt state.png ]; then dot -Tpng -o state.png state.dot; fi"

import "github.com/spacemonkeygo/monkit/v3"

var mon = monkit.Package()
