// Copyright (C) 2019 Storj Labs, Inc.
// See LICENSE for copying information.

package drpcstream

import "sync"

type chMutex struct {
	ch   chan struct{}
	once sync.Once
}

func (m *chMutex) init() { m.ch = make(chan struct{}, 1) }

func (m *chMutex) Chan() chan struct{} {
	m.once.Do(m.init)
	return m.ch
}

func (m *chMutex) Lock() {
	m.once.Do(m.init)
	m.ch <- struct{}{}
}

func (m *chMutex) TryLock() bool {
	m.once.Do(m.init)
	select {
	case m.ch <- struct{}{}:
		return true
	default:
		return false
	}
}

func (m *chMutex) Unlock() {
	m.once.Do(m.init)
	<-m.ch
}

func (m *chMutex) Unlocked() bool {
	m.once.Do(m.init)
	select {
	case m.ch <- struct{}{}:
		<-m.ch
		return true
	default:
		return false
	}
}
