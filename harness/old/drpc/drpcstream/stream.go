// Copyright (C) 2019 Storj Labs, Inc.
// See LICENSE for copying information.

package drpcstream

import (
	"context"
	"fmt"
	"io"
	"sync"

	"github.com/gogo/protobuf/proto"
	"github.com/zeebo/errs"

	"verif/old/drpc"
	"verif/old/drpc/drpcdebug"
	"verif/old/drpc/drpcsignal"
	"verif/old/drpc/drpcwire"
)

// Options controls configuration settings for a stream.
type Options struct {
	// SplitSize controls the default size we split packets into frames.
	SplitSize int
}

// Stream represents an rpc actively happening on a transport.
type Stream struct {
	ctx    context.Context
	cancel func()
	opts   Options

	write chMutex
	read  chMutex

	id drpcwire.ID
	wr *drpcwire.Writer

	mu   sync.Mutex // protects state transitions
	sigs struct {
		send   drpcsignal.Signal // set when done sending messages
		recv   drpcsignal.Signal // set when done receiving messages
		term   drpcsignal.Signal // set when the stream is terminating and no new ops should begin
		fin    drpcsignal.Signal // set when the stream is finished and all ops are complete
		cancel drpcsignal.Signal // set when externally canceled
	}
	queue chan drpcwire.Packet

	// avoids allocations of closures
	pollWriteFn func(context.Context, drpcwire.Frame) error
}

var _ drpc.Stream = (*Stream)(nil)

// New returns a new stream bound to the context with the given stream id and will
// use the writer to write messages on. It is important use monotonically increasing
// stream ids within a single transport.
func New(ctx context.Context, sid uint64, wr *drpcwire.Writer) *Stream {
	return NewWithOptions(ctx, sid, wr, Options{})
}

// NewWithOptions returns a new stream bound to the context with the given stream id
// and will use the writer to write messages on. It is important use monotonically increasing
// stream ids within a single transport. The options are used to control details of how
// the Stream operates.
func NewWithOptions(ctx context.Context, sid uint64, wr *drpcwire.Writer, opts Options) *Stream {
	ctx, cancel := context.WithCancel(ctx)

	s := &Stream{
		ctx:    ctx,
		cancel: cancel,
		opts:   opts,

		wr: wr,

		id:    drpcwire.ID{Stream: sid},
		queue: make(chan drpcwire.Packet),
	}

	s.pollWriteFn = s.pollWrite

	return s
}

//
// accessors
//

// Context returns the context associated with the stream. It is closed when
// the Stream will no longer issue any writes or reads.
func (s *Stream) Context() context.Context { return s.ctx }

// Terminated returns a channel that is closed when the stream has been terminated.
func (s *Stream) Terminated() <-chan struct{} { return s.sigs.term.Signal() }

// Finished returns a channel that is closed when the stream is fully finished
// and will no longer issue any writes or reads.
func (s *Stream) Finished() <-chan struct{} { return s.sigs.fin.Signal() }

// IsFinished returns true if the stream is fully finished and will no longer
// issue any writes or reads.
func (s *Stream) IsFinished() bool { return s.sigs.fin.IsSet() }

//
// packet handler
//

// HandlePacket advances the stream state machine by inspecting the packet. It returns
// any major errors that should terminate the transport the stream is operating on as
// well as a boolean indicating if the stream expects more packets.
func (s *Stream) HandlePacket(pkt drpcwire.Packet) (more bool, err error) {
	ctx := s.ctx
	defer mon.Task()(&ctx)(&err)

	s.mu.Lock()
	defer s.mu.Unlock()

	drpcdebug.Log(func() string { return fmt.Sprintf("STR[%p][%d]: %v", s, s.id.Stream, pkt) })

	if pkt.ID.Stream != s.id.Stream {
		return true, nil
	}

	switch pkt.Kind {
	case drpcwire.KindInvoke:
		err := drpc.ProtocolError.New("invoke on existing stream")
		s.terminate(err)
		return false, err

	case drpcwire.KindMessage:
		if s.sigs.recv.IsSet() || s.sigs.term.IsSet() {
			return true, nil
		}

		// drop the mutex while we either send into the queue or we're told that
		// receiving is done. we don't handle any more packets until the message
		// is delivered, so the only way it can become set is from some of the
		// stream terminating calls, in which case, shutting down the stream is
		// racing with the message being received, so dropping it is valid.
		s.mu.Unlock()
		defer s.mu.Lock()

		select {
		case <-s.sigs.recv.Signal():
		case <-s.sigs.term.Signal():
		case s.queue <- pkt:
		}

		return true, nil

	case drpcwire.KindError:
		err := drpcwire.UnmarshalError(pkt.Data)
		s.sigs.send.Set(io.EOF) // in this state, gRPC returns io.EOF on send.
		s.terminate(err)
		return false, nil

	case drpcwire.KindClose:
		s.sigs.recv.Set(io.EOF)
		s.terminate(drpc.Error.New("remote closed the stream"))
		return false, nil

	case drpcwire.KindCloseSend:
		s.sigs.recv.Set(io.EOF)
		s.terminateIfBothClosed()
		return false, nil

	default:
		err := drpc.InternalError.New("unknown packet kind: %s", pkt.Kind)
		s.terminate(err)
		return false, err
	}
}

//
// helpers
//

// checkFinished checks to see if the stream is terminated, and if so, sets the finished
// flag. This must be called after every read or write is complete, as well as when
// the stream becomes terminated.
func (s *Stream) checkFinished() {
	if s.sigs.term.IsSet() && s.write.Unlocked() && s.read.Unlocked() {
		s.sigs.fin.Set(nil)
	}
}

// checkCancelError will replace the error with one from the cancel signal if it is
// set. This is to prevent errors from reads/writes to a transport after it has been
// asynchronously closed due to context cancelation.
func (s *Stream) checkCancelError(err error) error {
	if sigErr, ok := s.sigs.cancel.Get(); ok {
		return sigErr
	}
	return err
}

// newPackage bumps the internal message id and returns a packet. It must be called
// under a mutex.
func (s *Stream) newPacket(kind drpcwire.Kind, data []byte) drpcwire.Packet {
	s.id.Message++
	return drpcwire.Packet{
		Data: data,
		ID:   s.id,
		Kind: kind,
	}
}

// pollWrite checks for any conditions that should cause a write to not happen and
// then issues the write of the frame.
func (s *Stream) pollWrite(ctx context.Context, fr drpcwire.Frame) (err error) {
	switch {
	case s.sigs.send.IsSet():
		return s.sigs.send.Err()
	case s.sigs.term.IsSet():
		return s.sigs.term.Err()
	}

	return s.checkCancelError(errs.Wrap(s.wr.WriteFrame(ctx, fr)))
}

// sendPacket sends the packet in a single write and flushes. It does not check for
// any conditions to stop it from writing and is meant for internal stream use to
// do things like signal errors or closes to the remote side.
func (s *Stream) sendPacket(ctx context.Context, kind drpcwire.Kind, data []byte) (err error) {
	defer mon.Task()(&ctx)(&err)

	if err := s.wr.WritePacket(ctx, s.newPacket(kind, data)); err != nil {
		return errs.Wrap(err)
	}
	if err := s.wr.Flush(ctx); err != nil {
		return errs.Wrap(err)
	}
	return nil
}

// terminateIfBothClosed is a helper to terminate the stream if both sides have
// issued a CloseSend.
func (s *Stream) terminateIfBothClosed() {
	if s.sigs.send.IsSet() && s.sigs.recv.IsSet() {
		s.terminate(drpc.Error.New("stream terminated by both issuing close send"))
	}
}

// terminate marks the stream as terminated with the given error. It also marks
// the stream as finished if no writes are happening at the time of the call.
func (s *Stream) terminate(err error) {
	s.sigs.send.Set(err)
	s.sigs.recv.Set(err)
	s.sigs.term.Set(err)
	s.cancel()
	s.checkFinished()
}

//
// raw read/write
//

// RawWrite sends the data bytes with the given kind.
func (s *Stream) RawWrite(ctx context.Context, kind drpcwire.Kind, data []byte) (err error) {
	defer mon.Task()(&ctx)(&err)

	defer s.checkFinished()
	s.write.Lock()
	defer s.write.Unlock()

	return drpcwire.SplitN(ctx, s.newPacket(kind, data), s.opts.SplitSize, s.pollWriteFn)
}

// RawFlush flushes any buffers of data.
func (s *Stream) RawFlush(ctx context.Context) (err error) {
	defer mon.Task()(&ctx)(&err)

	defer s.checkFinished()
	s.write.Lock()
	defer s.write.Unlock()

	return s.checkCancelError(errs.Wrap(s.wr.Flush(ctx)))
}

// RawRecv returns the raw bytes received for a message.
func (s *Stream) RawRecv(ctx context.Context) (data []byte, err error) {
	defer mon.Task()(&ctx)(&err)

	defer s.checkFinished()
	s.read.Lock()
	defer s.read.Unlock()

	if err, ok := s.sigs.recv.Get(); ok {
		return nil, err
	}

	select {
	case <-s.sigs.recv.Signal():
		return nil, s.sigs.recv.Err()
	case pkt := <-s.queue:
		return pkt.Data, nil
	}
}

//
// msg read/write
//

// MsgSend marshals the message with protobuf, writes it, and flushes.
func (s *Stream) MsgSend(msg drpc.Message) (err error) {
	ctx := s.ctx
	defer mon.Task()(&ctx)(&err)

	data, err := proto.Marshal(msg)
	if err != nil {
		return errs.Wrap(err)
	}
	if err := s.RawWrite(ctx, drpcwire.KindMessage, data); err != nil {
		return err
	}
	if err := s.RawFlush(ctx); err != nil {
		return err
	}
	return nil
}

// MsgRecv recives some protobuf data and unmarshals it into msg.
func (s *Stream) MsgRecv(msg drpc.Message) (err error) {
	ctx := s.ctx
	defer mon.Task()(&ctx)(&err)

	data, err := s.RawRecv(ctx)
	if err != nil {
		return err
	}
	return proto.Unmarshal(data, msg)
}

//
// terminal messages
//

// SendError terminates the stream and sends the error to the remote. It is a no-op if
// the stream is already terminated.
func (s *Stream) SendError(serr error) (err error) {
	ctx := s.ctx
	defer mon.Task()(&ctx)(&err)

	s.mu.Lock()
	if s.sigs.term.IsSet() {
		s.mu.Unlock()
		return nil
	}

	defer s.checkFinished()
	s.write.Lock()
	defer s.write.Unlock()

	s.sigs.send.Set(io.EOF) // in this state, gRPC returns io.EOF on send.
	s.terminate(drpc.Error.New("stream terminated by sending error"))
	s.mu.Unlock()

	return s.checkCancelError(s.sendPacket(ctx, drpcwire.KindError, drpcwire.MarshalError(serr)))
}

// Close terminates the stream and sends that the stream has been closed to the remote.
// It is a no-op if the stream is already terminated.
func (s *Stream) Close() (err error) {
	ctx := s.ctx
	defer mon.Task()(&ctx)(&err)

	s.mu.Lock()
	if s.sigs.term.IsSet() {
		s.mu.Unlock()
		return nil
	}

	defer s.checkFinished()
	s.write.Lock()
	defer s.write.Unlock()

	s.terminate(drpc.Error.New("stream terminated by sending close"))
	s.mu.Unlock()

	return s.checkCancelError(s.sendPacket(ctx, drpcwire.KindClose, nil))
}

// CloseSend informs the remote that no more messages will be sent. If the remote has
// also already issued a CloseSend, the stream is terminated. It is a no-op if the
// stream already has sent a CloseSend or if it is terminated.
func (s *Stream) CloseSend() (err error) {
	ctx := s.ctx
	defer mon.Task()(&ctx)(&err)

	s.mu.Lock()
	if s.sigs.send.IsSet() || s.sigs.term.IsSet() {
		s.mu.Unlock()
		return nil
	}

	defer s.checkFinished()
	s.write.Lock()
	defer s.write.Unlock()

	s.sigs.send.Set(drpc.Error.New("send closed"))
	s.terminateIfBothClosed()
	s.mu.Unlock()

	return s.checkCancelError(s.sendPacket(ctx, drpcwire.KindCloseSend, nil))
}

// Cancel transitions the stream into a state where all writes to the transport will return
// the provided error, and terminates the stream. It is a no-op if the stream is already
// terminated.
func (s *Stream) Cancel(err error) {
	ctx := s.ctx
	defer mon.Task()(&ctx)(&err)

	s.mu.Lock()
	defer s.mu.Unlock()

	if s.sigs.term.IsSet() {
		return
	}

	s.sigs.cancel.Set(err)
	s.sigs.send.Set(io.EOF) // in this state, gRPC returns io.EOF on send.
	s.terminate(err)
}
