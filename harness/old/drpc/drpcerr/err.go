// Copyright (C) 2019 Storj Labs, Inc.
// See LICENSE for copying information.

package drpcerr

import "unsafe"

// Code returns the error code associated with the error or 0 if none is.
func Code(err error) uint64 {
	for i := 0; i < 100; i++ {
		prev := err
		switch v := err.(type) {
		case interface{ Code() uint64 }:
			return v.Code()
		case interface{ Cause() error }:
			err = v.Cause()
		case interface{ Unwrap() error }:
			err = v.Unwrap()
		default:
			return 0
		}
		// short-circuit any trivial cycles
		if shallowEqual(err, prev) {
			return 0
		}
	}
	return 0
}

// shallowEqual returns true if the two errors are equal without comparing
// their values. It may return false even if the errors are equal, but if
// returns true, then the errors are equal.
//
//nolint:gosec
func shallowEqual(x, y error) bool {
	return *(*[2]uintptr)(unsafe.Pointer(&x)) == *(*[2]uintptr)(unsafe.Pointer(&y))
}

// WithCode associates the code with the error if it is non nil and the code
// is non-zero.
func WithCode(err error, code uint64) error {
	if err == nil || code == 0 {
		return err
	}
	return &codeErr{err: err, code: code}
}

type codeErr struct {
	err  error
	code uint64
}

func (c *codeErr) Error() string { return c.err.Error() }
func (c *codeErr) Unwrap() error { return c.err }
func (c *codeErr) Cause() error  { return c.err }
func (c *codeErr) Code() uint64  { return c.code }
