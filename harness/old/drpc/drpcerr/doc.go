// Copyright (C) 2019 Storj Labs, Inc.
// See LICENSE for copying information.

// Package drpcerr lets one associate error codes with errors.
package drpcerr
