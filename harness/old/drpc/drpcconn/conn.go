// Copyright (C) 2019 Storj Labs, Inc.
// See LICENSE for copying information.

package drpcconn

import (
	"context"

	"github.com/gogo/protobuf/proto"
	"github.com/zeebo/errs"

	"verif/old/drpc"
	"verif/old/drpc/drpcmanager"
	"verif/old/drpc/drpcmetadata"
	"verif/old/drpc/drpcstream"
	"verif/old/drpc/drpcwire"
)

// Options controls configuration settings for a conn.
type Options struct {
	// Manager controls the options we pass to the manager of this conn.
	Manager drpcmanager.Options
}

// Conn is a drpc client connection.
type Conn struct {
	tr  drpc.Transport
	man *drpcmanager.Manager
}

var _ drpc.Conn = (*Conn)(nil)

// New returns a conn that uses the transport for reads and writes.
func New(tr drpc.Transport) *Conn {
	return NewWithOptions(tr, Options{})
}

// NewWithOptions returns a conn that uses the transport for reads and writes.
// The Options control details of how the conn operates.
func NewWithOptions(tr drpc.Transport, opts Options) *Conn {
	return &Conn{
		tr:  tr,
		man: drpcmanager.NewWithOptions(tr, opts.Manager),
	}
}

// Transport returns the transport the conn is using.
func (c *Conn) Transport() drpc.Transport {
	return c.tr
}

// Closed returns true if the connection is already closed.
func (c *Conn) Closed() bool {
	return c.man.Closed()
}

// Close closes the connection.
func (c *Conn) Close() (err error) {
	return c.man.Close()
}

// Invoke issues the rpc on the transport serializing in, waits for a response, and
// deserializes it into out. Only one Invoke or Stream may be open at a time.
func (c *Conn) Invoke(ctx context.Context, rpc string, in, out drpc.Message) (err error) {
	defer mon.Task()(&ctx)(&err)
	defer mon.TaskNamed("invoke" + rpc)(&ctx)(&err)
	mon.Event("outgoing_requests")
	mon.Event("outgoing_invokes")

	var metadata []byte
	if md, ok := drpcmetadata.Get(ctx); ok {
		metadata, err = drpcmetadata.Encode(metadata, md)
		if err != nil {
			return err
		}
	}

	data, err := proto.Marshal(in)
	if err != nil {
		return errs.Wrap(err)
	}

	stream, err := c.man.NewClientStream(ctx)
	if err != nil {
		return err
	}
	defer func() { err = errs.Combine(err, stream.Close()) }()

	if err := c.doInvoke(stream, []byte(rpc), data, metadata, out); err != nil {
		return err
	}
	return nil
}

func (c *Conn) doInvoke(stream *drpcstream.Stream, rpc, data []byte, metadata []byte, out drpc.Message) (err error) {
	ctx := stream.Context()

	if len(metadata) > 0 {
		if err := stream.RawWrite(ctx, drpcwire.KindInvokeMetadata, metadata); err != nil {
			return err
		}
	}
	if err := stream.RawWrite(ctx, drpcwire.KindInvoke, rpc); err != nil {
		return err
	}
	if err := stream.RawWrite(ctx, drpcwire.KindMessage, data); err != nil {
		return err
	}
	if err := stream.CloseSend(); err != nil {
		return err
	}
	if err := stream.MsgRecv(out); err != nil {
		return err
	}
	return nil
}

// NewStream begins a streaming rpc on the connection. Only one Invoke or Stream may
// be open at a time.
func (c *Conn) NewStream(ctx context.Context, rpc string) (_ drpc.Stream, err error) {
	defer mon.Task()(&ctx)(&err)
	defer mon.TaskNamed("stream" + rpc)(&ctx)(&err)
	mon.Event("outgoing_requests")
	mon.Event("outgoing_streams")

	var metadata []byte
	if md, ok := drpcmetadata.Get(ctx); ok {
		metadata, err = drpcmetadata.Encode(metadata, md)
		if err != nil {
			return nil, err
		}
	}

	stream, err := c.man.NewClientStream(ctx)
	if err != nil {
		return nil, err
	}

	if err := c.doNewStream(stream, []byte(rpc), metadata); err != nil {
		return nil, errs.Combine(err, stream.Close())
	}
	return stream, nil
}

func (c *Conn) doNewStream(stream *drpcstream.Stream, rpc []byte, metadata []byte) error {
	ctx := stream.Context()

	if len(metadata) > 0 {
		if err := stream.RawWrite(ctx, drpcwire.KindInvokeMetadata, metadata); err != nil {
			return err
		}
	}
	if err := stream.RawWrite(ctx, drpcwire.KindInvoke, rpc); err != nil {
		return err
	}
	if err := stream.RawFlush(ctx); err != nil {
		return err
	}
	return nil
}
