// Copyright (C) 2019 Storj Labs, Inc.
// See LICENSE for copying information.

// Package drpcconn creates a drpc client connection from a transport.
package drpcconn

import "github.com/spacemonkeygo/monkit/v3"

var mon = monkit.Package()
