// Copyright (C) 2019 Storj Labs, Inc.
// See LICENSE for copying information.

package drpcctx

import (
	"context"
	"sync"

	"verif/old/drpc"
)

type transportKey struct{}

// WithTransport associates the drpc.Transport as a value on the context.
func WithTransport(ctx context.Context, tr drpc.Transport) context.Context {
	return context.WithValue(ctx, transportKey{}, tr)
}

// Transport returns the drpc.Transport associated with the context and a bool if it
// existed.
func Transport(ctx context.Context) (drpc.Transport, bool) {
	tr, ok := ctx.Value(transportKey{}).(drpc.Transport)
	return tr, ok
}

// Tracker keeps track of launched goroutines with a context.
type Tracker struct {
	context.Context
	cancel func()
	wg     sync.WaitGroup
}

// NewTracker creates a Tracker bound to the provided context.
func NewTracker(ctx context.Context) *Tracker {
	ctx, cancel := context.WithCancel(ctx)
	return &Tracker{
		Context: ctx,
		cancel:  cancel,
	}
}

// Run starts a goroutine running the callback with the tracker as the context.
func (t *Tracker) Run(cb func(ctx context.Context)) {
	t.wg.Add(1)
	go t.track(cb)
}

// track is a helper to call done on the waitgroup after the callback returns.
func (t *Tracker) track(cb func(ctx context.Context)) {
	cb(t)
	t.wg.Done()
}

// Cancel cancels the tracker's context.
func (t *Tracker) Cancel() { t.cancel() }

// Wait blocks until all callbacks started with Run have exited.
func (t *Tracker) Wait() { t.wg.Wait() }
