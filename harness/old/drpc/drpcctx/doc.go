// Copyright (C) 2019 Storj Labs, Inc.
// See LICENSE for copying information.

// Package drpcctx has helpers to interact with context.Context.
package drpcctx
