// Copyright (C) 2019 Storj Labs, Inc.
// See LICENSE for copying information.

package drpc

import (
	"context"
	"io"

	"github.com/zeebo/errs"
)

// These error classes represent some common errors that drpc generates.
var (
	Error         = errs.Class("drpc")
	InternalError = errs.Class("internal error")
	ProtocolError = errs.Class("protocol error")
)

// Transport is an interface describing what is required for a drpc connection.
type Transport interface {
	io.Reader
	io.Writer
	io.Closer
}

// Message is a protobuf message, just here so protobuf isn't necessary to
// import or be exposed in the types.
type Message interface {
	Reset()
	String() string
	ProtoMessage()
}

// Conn represents a client connection to a server.
type Conn interface {
	// Close closes the connection.
	Close() error

	// Closed returns true if the connection is definitely closed.
	Closed() bool

	// Transport returns the transport the connection is using.
	Transport() Transport

	// Invoke issues a unary rpc to the remote. Only one Invoke or Stream may be
	// open at once.
	Invoke(ctx context.Context, rpc string, in, out Message) error

	// NewStream starts a stream with the remote. Only one Invoke or Stream may be
	// open at once.
	NewStream(ctx context.Context, rpc string) (Stream, error)
}

// Stream is a bi-directional stream of messages to some other party.
type Stream interface {
	// Context returns the context associated with the stream. It is canceled
	// when the Stream is closed and no more messages will ever be sent or
	// received on it.
	Context() context.Context

	// MsgSend sends the Message to the remote.
	MsgSend(msg Message) error

	// MsgRecv receives a Message from the remote.
	MsgRecv(msg Message) error

	// CloseSend signals to the remote that we will no longer send any messages.
	CloseSend() error

	// Close closes the stream.
	Close() error
}

// Receiver is invoked by a server for a given rpc.
type Receiver = func(srv interface{}, ctx context.Context, in1, in2 interface{}) (out Message, err error)

// Description is the interface implemented by things that can be registered by
// a Server.
type Description interface {
	// NumMethods returns the number of methods available.
	NumMethods() int

	// Method returns the information about the nth method along with a handler
	// to invoke it. The method interface that it returns is expected to be
	// a method expression like `(*Type).HandlerName`.
	Method(n int) (rpc string, receiver Receiver, method interface{}, ok bool)
}

// Mux is a type that can have an implementation and a Description registered with it.
type Mux interface {
	Register(srv interface{}, desc Description) error
}

// Handler handles streams and rpcs dispatched to it by a Server.
type Handler interface {
	HandleRPC(stream Stream, rpc string) (err error)
}
