// Copyright (C) 2020 Storj Labs, Inc.
// See LICENSE for copying information.

package drpccache

import (
	"context"
	"sync"
)

type cacheKey struct{}

// Cache is a per stream cache.
type Cache struct {
	mu     sync.Mutex
	values map[interface{}]interface{}
}

// New returns a new cache.
func New() *Cache { return &Cache{} }

// FromContext returns a cache from a context.
//
// Example usage:
//
// 	cache := drpccache.FromContext(stream.Context())
// 	if cache != nil {
// 	       value := cache.LoadOrCreate("initialized", func() (interface{}) {
// 	               return 42
// 	       })
// 	}
func FromContext(ctx context.Context) *Cache {
	cache, _ := ctx.Value(cacheKey{}).(*Cache)
	return cache
}

// WithContext returns a context with the value cache associated with the context.
func WithContext(parent context.Context, cache *Cache) context.Context {
	return context.WithValue(parent, cacheKey{}, cache)
}

// init ensures that the values map exist.
func (cache *Cache) init() {
	if cache.values == nil {
		cache.values = map[interface{}]interface{}{}
	}
}

// Clear clears the cache.
func (cache *Cache) Clear() {
	cache.mu.Lock()
	defer cache.mu.Unlock()

	cache.values = nil
}

// Store sets the value at a key.
func (cache *Cache) Store(key, value interface{}) {
	cache.mu.Lock()
	defer cache.mu.Unlock()

	cache.init()
	cache.values[key] = value
}

// Load returns the value with the given key.
func (cache *Cache) Load(key interface{}) interface{} {
	cache.mu.Lock()
	defer cache.mu.Unlock()

	if cache.values == nil {
		return nil
	}

	return cache.values[key]
}

// LoadOrCreate returns the value with the given key.
func (cache *Cache) LoadOrCreate(key interface{}, fn func() interface{}) interface{} {
	cache.mu.Lock()
	defer cache.mu.Unlock()

	cache.init()

	value, ok := cache.values[key]
	if !ok {
		value = fn()
		cache.values[key] = value
	}

	return value
}
