// Copyright (C) 2019 Storj Labs, Inc.
// See LICENSE for copying information.

// Package drpccache implements per stream cache for drpc.
package drpccache
