module verif

go 1.23

require (
	github.com/zeebo/errs v1.2.2
	google.golang.org/protobuf v1.27.1
	pgregory.net/rapid v1.3.0
	storj.io/drpc v0.0.0
)

replace storj.io/drpc => /repo

require (
	github.com/gogo/protobuf v1.3.2
	github.com/spacemonkeygo/monkit/v3 v3.0.7
)
