// Package pbt is the common plumbing of every check: it runs a property as
// (generator, runner) under rapid, classifies and hashes every generated case,
// records shrunk failures as replay files, replays saved cases without rapid,
// and writes per-process statistics for the driver to merge into evidence.
package pbt

import (
	"encoding/json"
	"fmt"
	"hash/fnv"
	"os"
	"path/filepath"
	"runtime/debug"
	"sort"
	"strconv"
	"strings"
	"sync"
	"syscall"
	"testing"
	"time"

	"pgregory.net/rapid"
)

// Result is the verdict of one generated case.
type Result struct {
	// Fail is a STABLE failure message ("" = the property held). rapid aborts
	// shrinking when the message changes between runs, so nothing volatile
	// (pointers, dumps, timings) may go here — put it in Detail.
	Fail   string
	Detail string
	// Labels classify the case (generator coverage); NonTrivial says whether
	// it counts under the property's stated rule.
	Labels     []string
	NonTrivial bool
	// Key is a canonical description used for the distinctness hash. If empty
	// the JSON form of the case is used.
	Key string
	// Excluded names a known-finding shape that the case was rewritten to
	// avoid / skipped because of (counted in the evidence).
	Excluded string
	// Sample optionally overrides what is stored as the evidence sample.
	Sample any
}

func (r *Result) Label(l string)             { r.Labels = append(r.Labels, l) }
func (r *Result) Failf(f string, a ...any)   { r.Fail = fmt.Sprintf(f, a...) }
func (r *Result) Detailf(f string, a ...any) { r.Detail += fmt.Sprintf(f, a...) + "\n" }

// Prop is one executable property.
type Prop[C any] struct {
	ID   string // property id, e.g. "C08"
	Name string // sub-check, e.g. "roundtrip"
	Gen  func(*rapid.T) C
	Run  func(C) Result
}

func (p Prop[C]) full() string { return p.ID + "/" + p.Name }

// savedCase is the on-disk format of replay / regress files.
type savedCase struct {
	Property string          `json:"property"`
	Prop     string          `json:"prop"`
	Case     json.RawMessage `json:"case"`
	Fail     string          `json:"fail,omitempty"`
	Detail   string          `json:"detail,omitempty"`
	Known    string          `json:"known,omitempty"` // known-finding id: the case is EXPECTED to fail
	What     string          `json:"what,omitempty"`
	Seed     string          `json:"seed,omitempty"`
}

type propStats struct {
	Evaluations int              `json:"evaluations"`
	NonTrivial  int              `json:"nontrivial"`
	Excluded    map[string]int   `json:"excluded,omitempty"`
	Labels      map[string]int   `json:"labels"`
	Hashes      []uint64         `json:"hashes"`
	HashCapped  bool             `json:"hash_capped"`
	Samples     map[string][]any `json:"samples"`
	Failures    int              `json:"failures"`
	Regress     int              `json:"regress_replayed"`
	hashSet     map[uint64]struct{}
}

const hashCap = 150000

var replayNoExclude string

var (
	mu    sync.Mutex
	stats = map[string]*propStats{}
)

func getStats(name string) *propStats {
	st := stats[name]
	if st == nil {
		st = &propStats{Labels: map[string]int{}, Samples: map[string][]any{}, Excluded: map[string]int{}, hashSet: map[uint64]struct{}{}}
		stats[name] = st
	}
	return st
}

func truncateSample(v any) any {
	b, err := json.Marshal(v)
	if err != nil {
		return fmt.Sprintf("%+v", v)
	}
	if len(b) > 1500 {
		return string(b[:1500]) + "...(truncated)"
	}
	return json.RawMessage(b)
}

func record[C any](p Prop[C], c C, r Result) {
	mu.Lock()
	defer mu.Unlock()
	st := getStats(p.full())
	st.Evaluations++
	if r.Excluded != "" {
		st.Excluded[r.Excluded]++
	}
	labels := r.Labels
	if len(labels) == 0 {
		labels = []string{"unlabelled"}
	}
	for _, l := range labels {
		st.Labels[l]++
	}
	if r.Fail != "" {
		st.Failures++
	}
	if r.NonTrivial {
		st.NonTrivial++
		key := r.Key
		if key == "" {
			b, _ := json.Marshal(c)
			key = string(b)
		}
		h := fnv.New64a()
		h.Write([]byte(key))
		hv := h.Sum64()
		if _, ok := st.hashSet[hv]; !ok {
			if len(st.hashSet) < hashCap {
				st.hashSet[hv] = struct{}{}
			} else {
				st.HashCapped = true
			}
		}
		for _, l := range labels {
			if len(st.Samples[l]) < 2 {
				var s any = c
				if r.Sample != nil {
					s = r.Sample
				}
				st.Samples[l] = append(st.Samples[l], truncateSample(s))
				break
			}
		}
	}
}

// safeRun converts a panic raised on the calling goroutine into a failure.
func safeRun[C any](run func(C) Result, c C) (r Result) {
	defer func() {
		if v := recover(); v != nil {
			if inc, ok := v.(interface{ Inconclusive() string }); ok {
				// harness-side failure (e.g. quiescence spin cap): never a violation
				fmt.Println("HARNESS-INCONCLUSIVE:", inc.Inconclusive())
				WriteStats()
				os.Exit(3)
			}
			msg := fmt.Sprint(v)
			if i := strings.Index(msg, "0x"); i >= 0 { // keep the message stable
				msg = msg[:i]
			}
			if len(msg) > 200 {
				msg = msg[:200]
			}
			r.Fail = "panic: " + msg
			r.Detail += string(debug.Stack())
		}
	}()
	return run(c)
}

// cpuSeconds is the CPU time (user + system) this process has consumed.
func cpuSeconds() float64 {
	var ru syscall.Rusage
	if err := syscall.Getrusage(syscall.RUSAGE_SELF, &ru); err != nil {
		return 0
	}
	tv := func(t syscall.Timeval) float64 { return float64(t.Sec) + float64(t.Usec)/1e6 }
	return tv(ru.Utime) + tv(ru.Stime)
}

// cpuWatch guards a case of a pure (input -> output) check against non-termination: when VERIF_CPU_LIMIT=<seconds>
// is set and the process burns more than that much CPU time inside one case, the case is saved as a failure and the
// process ends. CPU time, not wall-clock time, is the signal: it only accrues while the code under test is actually
// running, so a loaded machine cannot produce it, and the cases of these checks need micro- to milliseconds.
func cpuWatch[C any](p Prop[C], c C) (stop func()) {
	limit, err := strconv.ParseFloat(os.Getenv("VERIF_CPU_LIMIT"), 64)
	if err != nil || limit <= 0 {
		return func() {}
	}
	start, done := cpuSeconds(), make(chan struct{})
	go func() {
		tick := time.NewTicker(250 * time.Millisecond)
		defer tick.Stop()
		for {
			select {
			case <-done:
				return
			case <-tick.C:
				if cpuSeconds()-start > limit {
					r := Result{Fail: fmt.Sprintf("the call did not return: the case consumed more than %v s of CPU time", limit)}
					path := saveFailure(p, c, r)
					fmt.Printf("--- FAIL: %s [replay=%s]\n", r.Fail, filepath.Base(path))
					WriteStats()
					os.Exit(1)
				}
			}
		}
	}()
	return func() { close(done) }
}

func envOr(k, d string) string {
	if v := os.Getenv(k); v != "" {
		return v
	}
	return d
}

func saveFailure[C any](p Prop[C], c C, r Result) string {
	dir := os.Getenv("VERIF_FAIL_DIR")
	if dir == "" {
		return ""
	}
	_ = os.MkdirAll(dir, 0o755)
	cb, _ := json.Marshal(c)
	sc := savedCase{Property: p.ID, Prop: p.full(), Case: cb, Fail: r.Fail, Detail: r.Detail, Seed: os.Getenv("VERIF_SHARD_SEED")}
	b, _ := json.MarshalIndent(sc, "", " ")
	path := filepath.Join(dir, fmt.Sprintf("%s__%s__%s.json", p.ID, p.Name, envOr("VERIF_SHARD_SEED", "0")))
	_ = os.WriteFile(path, b, 0o644)
	return path
}

// Check runs the property: replay file (if VERIF_REPLAY is set), then the
// saved regress cases, then the rapid search.
func Check[C any](t *testing.T, p Prop[C]) {
	t.Helper()
	if o := os.Getenv("VERIF_ID_OVERRIDE"); o != "" {
		p.ID = o // the same executable property serves as evidence for another listed property (e.g. C13)
	}
	if rp := os.Getenv("VERIF_REPLAY"); rp != "" {
		replayFile(t, p, rp, true)
		return
	}
	if dir := os.Getenv("VERIF_REGRESS_DIR"); dir != "" && os.Getenv("VERIF_SKIP_REGRESS") == "" {
		files, _ := filepath.Glob(filepath.Join(dir, p.ID, "*.json"))
		sort.Strings(files)
		for _, f := range files {
			replayFile(t, p, f, false)
		}
		if t.Failed() {
			return
		}
	}
	if os.Getenv("VERIF_REGRESS_ONLY") != "" {
		return
	}
	var lastFail string
	t.Cleanup(func() {
		if t.Failed() && lastFail != "" {
			t.Logf("last (minimal) failing case:\n%s", lastFail)
		}
	})
	journal := os.Getenv("VERIF_JOURNAL") != "" && os.Getenv("VERIF_FAIL_DIR") != ""
	rapid.Check(t, func(rt *rapid.T) {
		c := p.Gen(rt)
		if journal {
			// write-ahead: if a library goroutine panics, the process dies and this file is the replay
			writeJournal(p, c)
		}
		stop := cpuWatch(p, c)
		r := safeRun(p.Run, c)
		stop()
		record(p, c, r)
		if r.Fail != "" {
			cb, _ := json.Marshal(c)
			if len(cb) > 4000 {
				cb = append(cb[:4000], "..."...)
			}
			lastFail = fmt.Sprintf("fail: %s\ncase: %s\ndetail: %s", r.Fail, cb, r.Detail)
			path := saveFailure(p, c, r)
			rt.Fatalf("%s [replay=%s]", r.Fail, filepath.Base(path))
		}
	})
}

func replayFile[C any](t *testing.T, p Prop[C], path string, explicit bool) {
	b, err := os.ReadFile(path)
	if err != nil {
		t.Fatalf("replay: %v", err)
	}
	var sc savedCase
	if err := json.Unmarshal(b, &sc); err != nil {
		t.Fatalf("replay %s: %v", path, err)
	}
	if sc.Prop != p.full() {
		return // belongs to another sub-check
	}
	var c C
	if err := json.Unmarshal(sc.Case, &c); err != nil {
		t.Fatalf("replay %s: bad case: %v", path, err)
	}
	// a known finding's own scenario is replayed with that finding's exclusion switched off
	replayNoExclude = sc.Known
	stop := cpuWatch(p, c)
	r := safeRun(p.Run, c)
	stop()
	replayNoExclude = ""
	mu.Lock()
	getStats(p.full()).Regress++
	mu.Unlock()
	switch {
	case sc.Known != "" && !explicit:
		if r.Fail != "" {
			fmt.Printf("KNOWN-FINDING: property=%s %s %s (%s)\n", p.ID, sc.Known, sc.What, r.Fail)
		} else {
			fmt.Printf("NOTE: known finding %s of %s no longer reproduces from %s\n", sc.Known, p.ID, filepath.Base(path))
		}
	case r.Fail != "":
		fmt.Printf("REPLAY-FAIL prop=%s file=%s: %s\n%s\n", p.full(), path, r.Fail, r.Detail)
		if !explicit {
			// a saved regression case fails again: report it as a violation with the saved file as replay
			fmt.Printf("REGRESS-VIOLATION property=%s replay=%s\n", p.ID, path)
		}
		t.Errorf("replay %s: %s", filepath.Base(path), r.Fail)
	default:
		if explicit {
			fmt.Printf("REPLAY-PASS prop=%s file=%s\n", p.full(), path)
		}
	}
}

// Main is to be called from TestMain; it writes the statistics file.
func Main(m *testing.M) {
	code := m.Run()
	WriteStats()
	os.Exit(code)
}

// WriteStats dumps the statistics collected so far (also called from panics
// paths of long-running engines so that a crash does not lose everything).
func WriteStats() {
	out := os.Getenv("VERIF_STATS_OUT")
	if out == "" {
		return
	}
	mu.Lock()
	defer mu.Unlock()
	for _, st := range stats {
		st.Hashes = st.Hashes[:0]
		for h := range st.hashSet {
			st.Hashes = append(st.Hashes, h)
		}
	}
	b, _ := json.Marshal(stats)
	_ = os.WriteFile(out, b, 0o644)
}

// Excluded reports whether the known-finding exclusion with this id is active.
// Exclusions are on unless listed in VERIF_NO_EXCLUDE (comma separated; used
// to show that the search rediscovers the finding).
func Excluded(id string) bool {
	if replayNoExclude == id {
		return false
	}
	for _, x := range strings.Split(os.Getenv("VERIF_NO_EXCLUDE"), ",") {
		if x == id || x == "all" {
			return false
		}
	}
	return true
}

// Thorough reports whether the run is the thorough tier.
func Thorough() bool { return os.Getenv("VERIF_TIER") == "thorough" }

// Record and SaveFailure expose the bookkeeping to enumerating (non-rapid) tests.
func Record[C any](p Prop[C], c C, r Result)             { record(p, c, r) }
func SaveFailure[C any](p Prop[C], c C, r Result) string { return saveFailure(p, c, r) }

// G adapts a rapid generator to Prop.Gen.
func G[C any](g *rapid.Generator[C]) func(*rapid.T) C {
	return func(t *rapid.T) C { return g.Draw(t, "case") }
}

// Replaying reports whether the process was started to replay one saved case.
func Replaying() bool { return os.Getenv("VERIF_REPLAY") != "" }

// AddEvaluations counts n further executions for an enumerating sub-check.
func AddEvaluations[C any](p Prop[C], n int) {
	mu.Lock()
	defer mu.Unlock()
	getStats(p.full()).Evaluations += n
}

func writeJournal[C any](p Prop[C], c C) {
	dir := os.Getenv("VERIF_FAIL_DIR")
	_ = os.MkdirAll(dir, 0o755)
	cb, _ := json.Marshal(c)
	sc := savedCase{Property: p.ID, Prop: p.full(), Case: cb, Fail: "the process crashed while running this case (see the crash output next to this file)", Seed: os.Getenv("VERIF_SHARD_SEED")}
	b, _ := json.Marshal(sc)
	_ = os.WriteFile(filepath.Join(dir, "journal.json.tmp"), b, 0o644)
	_ = os.Rename(filepath.Join(dir, "journal.json.tmp"), filepath.Join(dir, "zz-journal.json"))
}
