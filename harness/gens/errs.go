// Package gens holds generators shared by several checks: the error-value
// grammar (C10, C13, C14), byte-string flavours, metadata maps.
package gens

import (
	"errors"
	"fmt"
	"io"

	"github.com/zeebo/errs"
	"pgregory.net/rapid"
	"storj.io/drpc/drpcerr"
)

// ErrSpec describes a handler error value; Build constructs it. Messages are
// []byte so that replay files preserve arbitrary bytes.
type ErrSpec struct {
	Msg     []byte
	HasCode bool
	Code    uint64
	// Layers are wrappers applied on top of the coded (or plain) error, inner
	// first: 0 fmt.Errorf("%w"), 1 errs.Wrap, 2 Cause()-only, 3 Unwrap()-only,
	// 4 opaque (fmt.Errorf("%v"): hides the code), 5 errs.Class.Wrap,
	// 6 drpcerr.WithCode(err, OuterCode): a code attached again further out.
	Layers []int
	// OuterCode is the code layer 6 attaches (0 attaches nothing).
	OuterCode uint64
	// Twirp, when non-nil, gives the innermost error a `Code() string` method.
	Twirp *string
	// Odd selects a hostile shape: "", "unwrap_nil", "cause_nil", "self_cycle",
	// "two_cycle", "code_arity", "code_bool", "typed_nil", "long_chain".
	Odd string
}

type causeOnly struct {
	msg string
	err error
}

func (c causeOnly) Error() string { return c.msg + c.err.Error() }
func (c causeOnly) Cause() error  { return c.err }

type unwrapOnly struct {
	msg string
	err error
}

func (c unwrapOnly) Error() string { return c.msg + c.err.Error() }
func (c unwrapOnly) Unwrap() error { return c.err }

type twirpErr struct{ code, msg string }

func (e twirpErr) Error() string { return e.msg }
func (e twirpErr) Code() string  { return e.code }

type unwrapNil struct{ msg string }

func (e unwrapNil) Error() string { return e.msg }
func (e unwrapNil) Unwrap() error { return nil }

type causeNil struct{ msg string }

func (e causeNil) Error() string { return e.msg }
func (e causeNil) Cause() error  { return nil }

type selfCycle struct{ msg string }

func (e *selfCycle) Error() string { return e.msg }
func (e *selfCycle) Unwrap() error { return e }

type twoCycle struct {
	msg   string
	other *twoCycle
}

func (e *twoCycle) Error() string { return e.msg }
func (e *twoCycle) Cause() error  { return e.other }

type codeArity struct{ msg string }

func (e codeArity) Error() string     { return e.msg }
func (e codeArity) Code(x int) string { return "not_found" }

type codeBool struct{ msg string }

func (e codeBool) Error() string { return e.msg }
func (e codeBool) Code() bool    { return true }

type typedNil struct{ msg string }

func (e *typedNil) Error() string {
	if e == nil {
		return "typed-nil"
	}
	return e.msg
}
func (e *typedNil) Unwrap() error { return nil }

var class = errs.Class("verifclass")

// Build constructs the error value.
func (s ErrSpec) Build() error {
	msg := string(s.Msg)
	var err error
	switch s.Odd {
	case "unwrap_nil":
		err = unwrapNil{msg}
	case "cause_nil":
		err = causeNil{msg}
	case "self_cycle":
		err = &selfCycle{msg}
	case "two_cycle":
		a, b := &twoCycle{msg: msg}, &twoCycle{msg: msg + "'"}
		a.other, b.other = b, a
		err = a
	case "code_arity":
		err = codeArity{msg}
	case "code_bool":
		err = codeBool{msg}
	case "typed_nil":
		err = unwrapOnly{msg: msg, err: (*typedNil)(nil)}
	case "wraps_eof":
		// an ordinary handler error that happens to wrap io.EOF (e.g. "upload incomplete: %w" around the EOF of its
		// last receive): still an error, with its own text
		err = fmt.Errorf("%s: %w", msg, io.EOF)
	default:
		if s.Twirp != nil {
			err = twirpErr{*s.Twirp, msg}
		} else {
			err = errors.New(msg)
		}
	}
	if s.HasCode {
		err = drpcerr.WithCode(err, s.Code)
	}
	layers := s.Layers
	if s.Odd == "long_chain" {
		layers = make([]int, 130)
	}
	for i, l := range layers {
		switch l {
		case 0:
			err = fmt.Errorf("w%d: %w", i, err)
		case 1:
			err = errs.Wrap(err)
		case 2:
			err = causeOnly{fmt.Sprintf("c%d: ", i), err}
		case 3:
			err = unwrapOnly{fmt.Sprintf("u%d: ", i), err}
		case 4:
			err = fmt.Errorf("o%d: %v", i, err)
		case 5:
			err = class.Wrap(err)
		case 6:
			err = drpcerr.WithCode(err, s.OuterCode)
		}
	}
	return err
}

// ExpectedCode derives, from the spec alone, the code a conforming
// implementation must report; ok=false means the statement does not fix it
// (chains deeper than 99, hostile shapes).
func (s ErrSpec) ExpectedCode() (code uint64, ok bool) {
	switch s.Odd {
	case "long_chain":
		return 0, false
	}
	if len(s.Layers) > 99 {
		return 0, false
	}
	// the outermost code that is visible through the wrappers wins
	for i := len(s.Layers) - 1; i >= 0; i-- {
		switch s.Layers[i] {
		case 4:
			return 0, true
		case 6:
			if s.OuterCode != 0 {
				return s.OuterCode, true
			}
		}
	}
	if s.HasCode {
		return s.Code, true // WithCode(err, 0) attaches nothing: code 0
	}
	return 0, true
}

// ExpectedTwirpCode is the Twirp-style string code visible through the
// wrappers ("" if none is).
func (s ErrSpec) ExpectedTwirpCode() (string, bool) {
	if s.Twirp == nil || s.Odd != "" {
		return "", false
	}
	for _, l := range s.Layers {
		if l == 4 {
			return "", false
		}
	}
	return *s.Twirp, true
}

var hostileMsgs = [][]byte{
	nil, []byte("boom"), []byte("line1\nline2"), []byte("cr\r\nX-Injected: 1"), []byte("x\ngrpc-status: 0"), []byte("grpc-status: 0"),
	[]byte(" spaced "), []byte("ünï — ☃"), {0, 1, 2}, {0xff, 0xfe}, []byte("100% full %s %d %!"), []byte("\r"), []byte("\n"), []byte("a\rb"), []byte("tab\there"),
	[]byte("\"quoted\" \\ back"), []byte("<html>&amp;"),
}

// GenMsg draws an error message / arbitrary string.
func GenMsg(max int) *rapid.Generator[[]byte] {
	return rapid.OneOf(
		rapid.SampledFrom(hostileMsgs),
		rapid.SliceOfN(rapid.Byte(), 0, 40),
		rapid.Map(rapid.StringN(0, 40, -1), func(s string) []byte { return []byte(s) }),
		rapid.Custom(func(t *rapid.T) []byte {
			n := rapid.SampledFrom([]int{127, 128, 129, 1000, 4095, 4096, 4097, max}).Draw(t, "len")
			if n > max {
				n = max
			}
			b := make([]byte, n)
			fill := rapid.SampledFrom([]byte{'a', '%', '\n', 0xc3, 0x00}).Draw(t, "fill")
			for i := range b {
				b[i] = fill
				if i%7 == 3 {
					b[i] = byte('a' + i%26)
				}
			}
			return b
		}),
	)
}

var boundaryCodes = []uint64{0, 1, 2, 12, 13, 255, 256, 1<<32 - 1, 1 << 32, 1 << 40, 1<<63 - 1, 1 << 63, 1<<64 - 1}

// GenErr draws an error spec. odd=false restricts to shapes whose code is
// fixed by the statement.
func GenErr(maxMsg int, odd bool) *rapid.Generator[ErrSpec] {
	return rapid.Custom(func(t *rapid.T) ErrSpec {
		s := ErrSpec{Msg: GenMsg(maxMsg).Draw(t, "msg")}
		if rapid.IntRange(0, 3).Draw(t, "hascode") > 0 {
			s.HasCode = true
			s.Code = rapid.OneOf(rapid.SampledFrom(boundaryCodes), rapid.Uint64()).Draw(t, "code")
		}
		s.Layers = rapid.SliceOfN(rapid.SampledFrom([]int{0, 0, 1, 2, 3, 5, 4, 6}), 0, 6).Draw(t, "layers")
		for _, l := range s.Layers {
			if l == 6 {
				s.OuterCode = rapid.OneOf(rapid.SampledFrom(boundaryCodes), rapid.Uint64()).Draw(t, "outercode")
				break
			}
		}
		if rapid.IntRange(0, 5).Draw(t, "twirp") == 0 {
			c := rapid.SampledFrom([]string{"not_found", "internal", "canceled", "weird_code", "", "with\nnl", "unauthenticated", "dataloss", "bad\r\nroute",
				// every code of the Twirp specification's status table
				"unknown", "invalid_argument", "malformed", "deadline_exceeded", "bad_route", "already_exists", "permission_denied", "resource_exhausted",
				"failed_precondition", "aborted", "out_of_range", "unimplemented", "unavailable"}).Draw(t, "tcode")
			s.Twirp = &c
		}
		if rapid.IntRange(0, 9).Draw(t, "wrapseof") == 0 {
			s.Odd = "wraps_eof" // not hostile: the code is fixed by the statement as for any other error
		}
		if odd && rapid.IntRange(0, 3).Draw(t, "odd") == 0 {
			s.Odd = rapid.SampledFrom([]string{"unwrap_nil", "cause_nil", "self_cycle", "two_cycle", "code_arity", "code_bool", "typed_nil", "long_chain"}).Draw(t, "oddkind")
		}
		return s
	})
}
