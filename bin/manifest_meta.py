ENGINES = [
    {"name": "E1-input-pbt", "path": "harness/wire harness/meta harness/http harness/gen harness/compat", "serves_properties": ["C08", "C09", "C13", "C14", "C17", "C18", "C10", "C11"],
     "kind_free_text": "rapid generators (boundary-biased, structure-aware malformations) + native go fuzz targets against independent reference implementations in harness/ref"},
    {"name": "E2-model-pbt", "path": "harness/stream harness/pool harness/migrate harness/signal", "serves_properties": ["C03", "C15", "C16", "C19"],
     "kind_free_text": "stateful / model-based property testing: generated operation histories applied to the real object and to a reference model"},
    {"name": "E3-director", "path": "harness/sim", "serves_properties": ["C01", "C02", "C04", "C05", "C06", "C07", "C10", "C11", "C12"],
     "kind_free_text": "deterministic simulation of a whole connection: harness-owned transport and actors, quiescence detection, rapid-drawn schedules and faults, verif-tagged scheduling points"},
]
NOTES = ("Every check is property-based testing / fuzzing (pgregory.net/rapid v1.3.0 + go test -fuzz) against an explicit oracle; bin/check is the driver, bin/config.py the per-property budgets. "
         "Exit 2 of a check means inconclusive (build error, harness crash, timeout, vacuous generator), never a violation.")
NOT_APPLICABLE = {}
META = {
 "C08": {"engine": "E1-input-pbt", "design_ref": "DESIGN.md section 3 C08",
         "technique": "property-based testing (rapid): round-trip + differential against an independent reference decoder + exhaustive enumeration of short byte strings; native fuzzing of ParseFrame in the thorough tier",
         "level_text": "Generated-input search: hundreds of thousands (quick) to tens of millions (thorough) of frames and structured malformed byte strings per run, plus complete enumeration of all strings of length <= 2 and of structured short strings; agreement with a reference decoder written from the wire description is checked on class, fields and exact remainder. Exploration is the right level because the domain (all byte strings) is infinite and the oracle is executable and cheap.",
         "level_note": "Trusted: the reference decoder/encoder in harness/ref (written from drpcwire/README.md), rapid's generators. Absence of violations beyond the enumerated short strings is sampled, not proven."},
}
