"""Per-property check configuration used by bin/check.

subs: each entry is one Test function of a harness package run as N shards
(one OS process per shard, each with its own rapid seed derived from
VERIF_SEED). quick/thorough are TOTAL case counts over all shards.
"""

CHECKS = {}

CHECKS["C08"] = {
    "pkg": "./wire",
    "level": "exploration",
    "rule": ("Frames are drawn with kinds 0..63, both flags, ids from a boundary-biased 64-bit generator and payloads up to 3 KB (70 KiB thorough); "
             "byte strings come from 8 structure-aware malformation families (truncation at a drawn offset, padded varints of 1..11 bytes, huge declared lengths, "
             "10-byte varints with hostile last byte, bit flips, hostile-alphabet and random strings) plus the exhaustive enumeration. Oracles: round trip, "
             "differential against an independent reference decoder (class, fields, exact remainder), constructive completion of every need-more input, "
             "need-more for every proper prefix, varint round trip/length/LEB128 agreement, SplitN/SplitData laws. "
             "Non-trivial: a multi-byte varint or non-empty payload (round trip), input of >= 4 bytes (differential), encoding longer than 4 bytes (prefixes), "
             "value >= 128 (varint), multi-frame or exact-multiple split (split); every enumerated string counts once."),
    "exhaustive": "sub-check C08/exhaustive enumerates ALL byte strings of length <= 2 and all strings of length 3..5 over {00,01,7f,80,ff} and 6..8 (12 thorough) over {00,80,ff}, and in the thorough tier ALL 16.7 M strings of length 3; the other sub-checks sample",
    "assumptions": ["the reference decoder in harness/ref/frame.go is a faithful reading of drpcwire/README.md (10th varint byte: value mod 2^64; non-minimal varints accepted)",
                    "sampling beyond the enumerated short strings"],
    "subs": [
        {"test": "TestC08RoundTrip", "prop": "C08/roundtrip", "quick": 60000, "thorough": 3000000, "shards_quick": 2, "shards_thorough": 8},
        {"test": "TestC08Differential", "prop": "C08/differential", "quick": 120000, "thorough": 8000000, "shards_quick": 4, "shards_thorough": 16},
        {"test": "TestC08Prefixes", "prop": "C08/prefixes", "quick": 20000, "thorough": 500000, "shards_quick": 2, "shards_thorough": 4},
        {"test": "TestC08Varint", "prop": "C08/varint", "quick": 30000, "thorough": 2000000, "shards_quick": 1, "shards_thorough": 4},
        {"test": "TestC08VarintBytes", "prop": "C08/varintbytes", "quick": 30000, "thorough": 2000000, "shards_quick": 1, "shards_thorough": 4},
        {"test": "TestC08Split", "prop": "C08/split", "quick": 20000, "thorough": 400000, "shards_quick": 2, "shards_thorough": 8},
        {"test": "TestC08Exhaustive", "prop": "C08/exhaustive", "quick": 1, "thorough": 1, "shards": 1},
        {"fuzz": "FuzzParseFrame", "pkg": "./wire", "prop": "C08/fuzz_parseframe", "secs": 60},
        {"fuzz": "FuzzVarint", "pkg": "./wire", "prop": "C08/fuzz_varint", "secs": 30},
    ],
    "floors": {"C08/differential": {"class_error": 0.03, "class_need-more": 0.10, "class_ok": 0.15, "completed": 0.05},
               "C08/varintbytes": {"class_error": 0.03, "class_need-more": 0.1},
               "C08/roundtrip": {"@nontrivial": 0.5}},
}

CHECKS["C09"] = {
    "pkg": "./wire",
    "level": "exploration",
    "rule": ("A case is a script of 1..8 packets (1..4 frames each, sizes around 0/30/600/max, kinds 0..9, control bits, padded varints, ids advancing by +1, skips, new streams, "
             "and at the 64-bit boundary) with hostile steps mixed in (kind change, missing done flag, id going backwards, reuse of a completed id), an optional tail "
             "(garbage, truncated frame, never-completing frame declaring up to 2^64-1 bytes), a maximum from {1..20000, default}, and 2-3 partitions of the SAME bytes "
             "into reads (byte-by-byte, all at once, drawn cuts, cuts around 4096, empty reads sprinkled, final error attached to the last data or delivered alone). "
             "Oracle: packets and first-error class equal the reference reassembly (harness/ref/reassemble.go) for every partition, partitions agree with each other, "
             "and reader buffers / largest requested read stay <= 4*max+64KiB. Non-trivial: >= 2 outcomes (packets + error), at least one multi-frame/discard/malformed/"
             "truncation event, and the partitions differ. Sub-check hostile: endless oversized frame must be rejected within the memory bound; stall: >= 100 empty reads."),
    "assumptions": ["reference reassembly written from the statement; first acceptable id is (stream 1, message 1) as the stream layer emits",
                    "don't-care band: a frame whose header+payload exceeds max+28 by at most 3 bytes while its payload fits (headers can be 31 bytes, the reader budgets 28); ids exhausted at (2^64-1, 2^64-1)",
                    "empty reads are outside the statement's quantifier; fewer than 99 in a row must not change the result"],
    "subs": [
        {"test": "TestC09Reassembly", "prop": "C09/reassembly", "quick": 60000, "thorough": 4000000, "shards_quick": 8, "shards_thorough": 16},
        {"test": "TestC09Hostile", "prop": "C09/hostile", "quick": 300, "thorough": 5000, "shards_quick": 2, "shards_thorough": 4},
        {"test": "TestC09Stall", "prop": "C09/stall", "quick": 300, "thorough": 3000, "shards": 1},
        {"fuzz": "FuzzReader", "pkg": "./wire", "prop": "C09/fuzz_reader", "secs": 90},
    ],
    "floors": {"C09/reassembly": {"@nontrivial": 0.2, "ev_discard_unfinished": 0.05, "ev_continuation": 0.3, "ev_id_backwards": 0.03, "ev_kind_change": 0.01,
                                  "ev_oversize_packet": 0.02, "class_protocol": 0.2, "class_io": 0.158}},
}

CHECKS["C14"] = {
    "pkg": "./http",
    "level": "exploration",
    "rule": ("A case is (content type from the six registered + unknown/parameterised/empty, request message, 0..5 handler messages (0..2 for Twirp, whose response carries one: a second send must be refused and the call must not be answered with a success holding part of the messages), nil or an error "
             "from the error grammar (arbitrary bytes incl. CR/LF/NUL/non-UTF-8/'%', drpcerr codes incl. 2^64-1 at wrap depth 0..6 through %w/errs/Cause/Unwrap/opaque layers, "
             "Twirp-style Code() string incl. unknown codes and codes with CR/LF, hostile shapes: nil Unwrap/Cause, cycles, Code methods of wrong arity/type, typed nil, 130-deep chains), "
             "0..4 metadata header entries (escaped k=v, key only, or raw strings over an alphabet weighted to '%', '=', hex and non-hex digits), optionally another gateway in the same process that installs a protocol of its own for the same content type (which must not change this gateway's answers)). "
             "Oracle: independent parse of the recorded response (status table copied from the Twirp spec, JSON body, grpc-web frames, base64 chunk-wise, trailer split on CRLF "
             "with no bare CR/LF and exactly the expected keys), handler request/metadata equality with a reference percent-decoder (net/url.PathUnescape). "
             "Sub-check limits: bodies of limit-1/limit/limit+1/... bytes in both directions, dishonest grpc-web length fields, corrupt base64; over-limit must be rejected, never truncated, allocation bounded. "
             "Non-trivial: an error outcome, >= 2 streamed messages, or metadata present; every limits case. " 
             "concurrent: two grpc-web requests (binary or text) in flight on one gateway, the first response held inside its ResponseWriter's first Write while the second is answered completely; each response must decode to exactly its own handler's 1..3 messages."),
    "assumptions": ["responses are captured with net/http/httptest.ResponseRecorder (Result() view, i.e. headers as snapshotted at WriteHeader)",
                    "error-code mapping asserted only where the statement/doc fixes it (not for 130-deep chains or hostile Code methods combined with Twirp codes)",
                    "a grpc-web response of exactly the limit may be rejected (the code uses >=); only truncation or acceptance over the limit is flagged; Twirp responses have no limit in the code and none is demanded"],
    "subs": [
        {"test": "TestC14Gateway", "prop": "C14/gateway", "quick": 60000, "thorough": 3000000, "shards_quick": 8, "shards_thorough": 16},
        {"test": "TestC14Limits", "prop": "C14/limits", "quick": 400, "thorough": 8000, "shards_quick": 4, "shards_thorough": 16},
        {"test": "TestC14Concurrent", "prop": "C14/concurrent", "quick": 8000, "thorough": 400000, "shards_quick": 4, "shards_thorough": 8},
    ],
    "floors": {"C14/gateway": {"outcome_error": 0.329, "crlf_in_error": 0.03, "meta_malformed": 0.03, "meta": 0.4, "nonutf8_error": 0.03},
               "C14/limits": {"over_limit_rejected": 0.1, "dishonest_length": 0.041}},
}

CHECKS["C13"] = {
    "pkg": "./wire",
    "level": "exploration",
    "rule": ("Every receive-path entry point is driven with generated hostile input and must return a value or an error without panicking (panics are recovered per case and "
             "reported with the input), agree with its reference where one exists, and stay within its allocation bound: ParseFrame (C08 differential generator), "
             "Reader.ReadPacket (structured frame scripts, raw/hostile byte strings and bit-flipped streams under 2-3 chunkings, endless oversized frame), UnmarshalError, "
             "drpcmetadata.Decode (7 malformation families incl. 2^63/2^64-1 length prefixes at each of the three length positions), drpchttp.Context on header values over an "
             "alphabet weighted to '%', '=', hex/non-hex, the gateway's body readers with dishonest length fields / corrupt base64 / bodies around the limit, and the gateway's "
             "error-code extraction on hostile error values (nil Unwrap/Cause, cycles, wrong-arity Code methods, typed nil), and a live server (manager + stream dispatch) fed 1..20 arbitrary frames by a wire-level peer "
             "(plausible and arbitrary id progressions, kinds 0..8/33/63, control bits, unfinished packets, junk payloads, raw garbage; optionally after a well-formed invoke) which must never panic, and must shut down completely when the peer disconnects. "
             "The thorough tier adds coverage-guided native fuzzing (go test -fuzz) of ParseFrame, the reader, metadata Decode, UnmarshalError and the metadata header parser with the same oracles inside the targets. stats_stress: one server with CollectStats serves 2..6 connections at once over net.Pipe on real goroutines, 20..200 calls each under rpc names chosen by the peers (shared by all, by two, or never seen before); no input takes the process down (a runtime abort such as 'concurrent map read and map write' kills the shard and is reported); in the thorough tier also under the race detector (what the calls return and what the statistics hold is recorded as labels, not judged: C13 is about crashes). Non-trivial: the input reaches past the first validation branch (>= 4 bytes for frames/reader, >= 2 bytes for metadata, >= 1 escape for headers, any error outcome for the gateway)."),
    "assumptions": ["packet dispatch in stream and manager is driven by a wire-level peer sending arbitrary frame sequences (sub-check manager_frames); a panic on a library goroutine kills the shard and is reported from its stack trace",
                    "allocation is bounded by observing runtime.MemStats.TotalAlloc around the call (gateway) and buffer capacities / largest requested read (reader)"],
    "subs": [
        {"test": "TestC08Differential", "prop": "C13/differential", "quick": 60000, "thorough": 4000000, "shards_quick": 4, "shards_thorough": 8, "env": {"VERIF_ID_OVERRIDE": "C13"}},
        {"test": "TestC08Exhaustive", "prop": "C13/exhaustive", "quick": 1, "thorough": 1, "shards": 1, "env": {"VERIF_ID_OVERRIDE": "C13"}},
        {"test": "TestC13ReaderBytes", "prop": "C13/reader_bytes", "quick": 40000, "thorough": 3000000, "shards_quick": 4, "shards_thorough": 8},
        {"test": "TestC09Reassembly", "prop": "C13/reassembly", "quick": 20000, "thorough": 1000000, "shards_quick": 4, "shards_thorough": 8, "env": {"VERIF_ID_OVERRIDE": "C13"}},
        {"test": "TestC09Hostile", "prop": "C13/hostile", "quick": 200, "thorough": 3000, "shards_quick": 2, "shards_thorough": 4, "env": {"VERIF_ID_OVERRIDE": "C13"}},
        {"test": "TestC11Decode", "prop": "C13/codec_decode", "pkg": "./meta", "quick": 60000, "thorough": 4000000, "shards_quick": 4, "shards_thorough": 8, "env": {"VERIF_ID_OVERRIDE": "C13"}},
        {"test": "TestC10UnmarshalErr", "prop": "C13/unmarshal", "pkg": "./meta", "quick": 20000, "thorough": 1000000, "shards_quick": 2, "shards_thorough": 4, "env": {"VERIF_ID_OVERRIDE": "C13"}},
        {"test": "TestC13Header", "prop": "C13/http_header", "pkg": "./http", "quick": 60000, "thorough": 4000000, "shards_quick": 4, "shards_thorough": 8},
        {"test": "TestC14Gateway", "prop": "C13/gateway", "pkg": "./http", "quick": 30000, "thorough": 1000000, "shards_quick": 4, "shards_thorough": 8, "env": {"VERIF_ID_OVERRIDE": "C13"}},
        {"test": "TestC14Limits", "prop": "C13/limits", "pkg": "./http", "quick": 200, "thorough": 4000, "shards_quick": 4, "shards_thorough": 8, "env": {"VERIF_ID_OVERRIDE": "C13"}},
        {"test": "TestC13Bodies", "prop": "C13/http_bodies", "pkg": "./http", "quick": 40000, "thorough": 2000000, "shards_quick": 4, "shards_thorough": 8},
        {"test": "TestC13ManagerFrames", "prop": "C13/manager_frames", "pkg": "./conn", "quick": 16000, "thorough": 600000, "shards_quick": 16, "shards_thorough": 16, "gomaxprocs": 1},
        {"test": "TestC13StatsStress", "prop": "C13/stats_stress", "pkg": "./pool", "quick": 160, "thorough": 4000, "shards_quick": 4, "shards_thorough": 8},
        {"test": "TestC13StatsStress", "prop": "C13/stats_stress", "pkg": "./pool", "thorough": 800, "shards_thorough": 8, "race": True, "thorough_only": True},
        {"fuzz": "FuzzParseFrame", "pkg": "./wire", "prop": "C13/fuzz_parseframe", "secs": 45},
        {"fuzz": "FuzzReader", "pkg": "./wire", "prop": "C13/fuzz_reader", "secs": 60},
        {"fuzz": "FuzzMetadataDecode", "pkg": "./meta", "prop": "C13/fuzz_metadata_decode", "secs": 45},
        {"fuzz": "FuzzUnmarshalError", "pkg": "./meta", "prop": "C13/fuzz_unmarshal_error", "secs": 20},
        {"fuzz": "FuzzMetadataHeader", "pkg": "./http", "prop": "C13/fuzz_metadata_header", "secs": 45},
    ],
    "floors": {"C13/codec_decode": {"rejected": 0.3, "accepted": 0.1}, "C13/http_header": {"rejected": 0.2, "accepted": 0.1}, "C13/manager_frames": {"reached_a_handler": 0.2, "server_terminated_the_connection": 0.2, "server_kept_serving": 0.1}},
}

CHECKS["C10"] = {
    "pkg": "./meta",
    "level": "exploration",
    "rule": ("Codec half: error values from the grammar (message: empty/ASCII/UTF-8/arbitrary bytes incl. NUL, CR/LF and '%'/64 KiB; code none/0/1/2/12/2^32/2^63/2^64-1/random; "
             "code attached under 0..6 wrapper layers of seven kinds incl. opaque ones and a second, different code attached further out (the outermost visible code is the error's code); hostile shapes) through drpcerr.Code, MarshalError, UnmarshalError: layout is 8-byte big-endian code + message, "
             "message and code survive, Code finds the attached code at any transparent depth (and 0 under an opaque layer). Non-trivial: depth >= 2, code >= 2^32, message >= 128 bytes or with special bytes, or a hostile shape. "
             "End-to-end half: a hand-written service description with the four method shapes is registered with the real mux and served over the simulated connection under drawn delivery schedules; the handler sends k in 0..4 messages and then returns nil or an error from the grammar (also together with a response value), "
             "or the dispatcher itself fails (an rpc name the server does not know, drawn from names with '%', quotes, NUL and non-UTF-8 bytes - or a request the encoding rejects; the expected text is what the mux itself returns for that call, obtained with a stub stream: the statement fixes that the dispatcher's failure arrives unchanged, not its wording). The client error's Error() must equal the handler error's Error() byte for byte, its code the spec-derived code, the k messages arrive first in order, a nil-returning handler never yields a client error, and a probe RPC succeeds afterwards. "
             "Generated-stubs half (C10/generated_stubs): for a drawn service (1..2 services, 1..5 methods of any shape, three protolibs) the plugin built from /repo generates client and server; the driver's handlers fail every method on request (drawn text, code, after 0..3 responses) and, on a second connection, every method is called on a server that does not know the service with a request of 0..2 MiB "
             "(the dispatcher fails the call as soon as it has the invoke, possibly while the client still writes the request). The error the *generated client* hands to its caller (from the stub, Recv or CloseAndRecv) must have exactly the handler's / dispatcher's text and code, responses sent before the failure arrive first, and every method round-trips afterwards."),
    "assumptions": ["chains deeper than 99 layers are don't-care for the code (the unwrap loop is bounded at 100); only termination and message identity are asserted there"],
    "subs": [
        {"test": "TestC10ErrCodec", "prop": "C10/codec", "quick": 60000, "thorough": 3000000, "shards_quick": 4, "shards_thorough": 8},
        {"test": "TestC10UnmarshalErr", "prop": "C10/unmarshal", "quick": 20000, "thorough": 1000000, "shards_quick": 2, "shards_thorough": 4},
        {"test": "TestC10EndToEnd", "prop": "C10/end_to_end", "pkg": "./conn", "quick": 16000, "thorough": 600000, "shards_quick": 16, "shards_thorough": 16, "gomaxprocs": 1},
        {"test": "TestC10Generated", "prop": "C10/generated_stubs", "pkg": "./gen", "quick": 64, "thorough": 1600, "shards_quick": 16, "shards_thorough": 16, "timeout_quick": 1200, "shrinktime": "120s"},
    ],
    "floors": {"C10/codec": {"depth_2plus": 0.3, "code_ge_2_32": 0.075, "special_bytes": 0.2},
               "C10/generated_stubs": {"shape_server_streaming": 0.4, "shape_unary": 0.4, "unknown_rpc_with_multi_frame_request": 0.3, "coded_error": 0.4},
               "C10/end_to_end": {"handler_error": 0.307, "dispatcher_failure": 0.1, "shape_1": 0.1, "shape_2": 0.05, "shape_3": 0.1}},
}

CHECKS["C11"] = {
    "pkg": "./meta",
    "level": "exploration",
    "rule": ("Codec half: maps of 0..8 pairs of arbitrary byte strings (empty, 1 KiB, binary, near-duplicate keys) through Encode/Decode: library round trip, output parsed by a protowire "
             "reference as message{map<string,string>=1} with exactly one entry per key and byte-identical to the canonical protobuf encoding of those entries, decoded by the real protobuf "
             "runtime (dynamicpb, proto2 descriptor built at run time) to the same map, and the runtime's own encoding (deterministic and not) decoded by Decode to the same map; arbitrary bytes "
             "(8 malformation families, among them lengths written as over-long varints with and without bits beyond 2^64) into Decode: map or error, never both, input untouched, the accepted map survives re-encoding, and whenever the protobuf rules accept the bytes too both read the same map (bytes that only drpc accepts - it reads varints modulo 2^64 - are counted under the label accepted_although_not_protobuf and are not a failure). Non-trivial: >= 1 pair with an empty/long/binary string or >= 2 pairs (round trip); >= 2 input bytes (decode). "
             "End-to-end half: sequences of 2..6 unary/streaming calls on one simulated connection whose contexts are built the way applications do (a shared base context carrying metadata, per-call Add chains or AddPairs derived from the base, from a fresh context or from the previous call's context, the caller optionally changing its own map after AddPairs returned), "
             "with a 1-byte writer buffer so the metadata packet is really on the wire, optionally abandoned between the metadata packet and the invoke (soft cancel while held at the scheduling point); every handler must see exactly the pairs of its own call's context under value semantics. "
             "The wire-level form of abandonment (InvokeMetadata for stream n, Invoke for n+1) is in C02/stale_from_client."),
    "assumptions": ["protobuf-go v1.27.1 (module cache) is the 'real protobuf runtime'; proto2 syntax is used so that non-UTF-8 strings are not rejected by the runtime itself"],
    "subs": [
        {"test": "TestC11RoundTrip", "prop": "C11/codec_roundtrip", "quick": 40000, "thorough": 2000000, "shards_quick": 4, "shards_thorough": 8},
        {"test": "TestC11Decode", "prop": "C11/codec_decode", "quick": 60000, "thorough": 4000000, "shards_quick": 4, "shards_thorough": 8},
        {"fuzz": "FuzzMetadataDecode", "pkg": "./meta", "prop": "C11/fuzz_metadata_decode", "secs": 45},
        {"test": "TestC11EndToEnd", "prop": "C11/end_to_end", "pkg": "./conn", "quick": 8000, "thorough": 300000, "shards_quick": 16, "shards_thorough": 16, "gomaxprocs": 1},
        # the same executable property under the race detector (thorough tier): the metadata packet is decoded from a buffer the reader reuses
        {"test": "TestC11EndToEnd", "prop": "C11/end_to_end", "pkg": "./conn", "thorough": 16000, "shards_thorough": 16, "gomaxprocs": 1, "race": True, "thorough_only": True},
    ],
    "floors": {"C11/codec_roundtrip": {"empty_string": 0.2, "binary": 0.3, "long_string": 0.1}, "C11/codec_decode": {"rejected": 0.3, "accepted": 0.1},
               "C11/end_to_end": {"contexts_derived_from_shared_parent": 0.4, "abandoned_between_metadata_and_invoke": 0.038}},
}

E3_ASSUME = ["schedules are explored at the granularity of API calls, transport read/write completions (whole, 1 byte, 7 bytes, half) and the verif-tagged scheduling points; interleavings between statements with no point between them are not enumerated",
             "the simulated transport is an in-memory duplex pipe whose Close fails its own pending I/O (as net.Conn does); no timers are involved (InactivityTimeout unset)",
             "hangs are decided at quiescence (every goroutine durably blocked per a whitelist of wait reasons) with nothing enabled, under a step bound of 300 director steps per RPC"]

CHECKS["C06"] = {
    "pkg": "./conn",
    "level": "exploration",
    "rule": ("A case is a connection configuration (soft/hard cancel, split size, writer buffer), 1..3 RPCs whose client and handler programs are drawn independently "
             "(unary or stream; client: send/recv/drain/closesend/close/cancel steps, receives whose encoding rejects the message and sends whose encoding cannot marshal it, unary with an optional concurrent canceller or with a request that cannot be marshalled, optional cancel of the call's context once it is over; stream calls may end the way generated stubs end them, by half-close and reading to the end without Close, in either order; "
             "handler: recv/send steps, possibly an undecodable receive or no receive at all, then return nil or an error), issued one after the other or all up front from separate goroutines, "
             "optionally holding the point between stream creation and the invoke write or keeping the goroutine that watches the call's context late until the call is over, a window of steps during which one transport direction is stalled, and up to 300 pre-drawn director choices from an alphabet weighted towards grants (transport chunking, grants, point releases). "
             "After each RPC the transport is flushed; an application-level stall is ended by Close from another goroutine. Oracle: if the connection has not reported itself closed and every client call and handler "
             "has returned, a probe unary RPC reaches its handler and returns its own echo, decided at quiescence in flush mode. Non-trivial: the probe ran and some earlier RPC ended with bytes in flight, "
             "an early close, a soft cancel, a handler error or a forced close. Distinct by action trace + programs."),
    "assumptions": E3_ASSUME + ["known finding F5 is excluded by construction (see known_findings.jsonl); their minimal scenarios are replayed on every run"],
    "subs": [
        {"test": "TestC06Probe", "prop": "C06/probe", "quick": 32000, "thorough": 600000, "shards_quick": 16, "shards_thorough": 16, "gomaxprocs": 1},
    ],
    "floors": {"C06/probe": {"probed": 0.4, "soft_cancel": 0.1, "@nontrivial": 0.3}},
}

CHECKS["C04"] = {
    "pkg": "./conn",
    "level": "exploration",
    "rule": ("Optionally an earlier unary call has completed on the connection and had its context cancelled at once (with the goroutine watching that context possibly late). One streaming RPC is created, then up to five client goroutines (two senders, a receiver, a terminal call Close/CloseSend, plus late operations) are advanced by up to 30 director "
             "choices drawn from an alphabet weighted towards grants (so that several operations are in flight), optionally with 1..4 of 13 stream/manager scheduling points held; then the RPC's context "
             "is cancelled - or ends the way an expired deadline does (context.DeadlineExceeded, ended by the harness, no timer) - and the transport is FROZEN (no accept, no delivery; point releases only; with soft cancel and known finding F13 excluded, either client bytes are still accepted - never delivered - or, when no call is held at a point, nothing is accepted and no later calls are issued: the calls in flight must return all the same); optionally a second caller issues a unary call at that moment and has its own context cancelled while it waits. Oracle at quiescence: every operation of the RPC has returned; receives blocked at cancel time satisfy "
             "errors.Is(err, context.Canceled) and, in the default mode, so do sends parked in the transport (only when the cancel is the sole termination cause); nil is never returned by a blocked op; "
             "operations issued afterwards fail at once; once the transport moves again the peer handler ends with its stream context done and the connection is closed or a probe RPC succeeds. "
             "Non-trivial: >= 2 operations in flight at cancel time with a write parked in the transport, a goroutine held at a point, or a terminal call in flight. Distinct by action trace + programs. "
             "server_side: a handler with a sender goroutine (sends parked in the transport because server->client bytes are not taken) and a receiver goroutine is brought into flight - or a handler that returns an error at once, so that the server's own SendError is what is parked in the transport -, then the serving context is cancelled, the client disconnects, or the client cancels "
             "(both modes; only what has to travel moves); every handler call must return, the handler's stream context must be done, later handler sends/receives must fail, no goroutine stays inside SendError. Non-trivial: a handler operation (or the server's SendError) in flight."),
    "assumptions": E3_ASSUME + ["known findings F7, F13, F14, F19 are excluded by construction (see known_findings.jsonl) and their minimal scenarios are replayed on every run",
                                "server side: after a client's SOFT cancel the connection lives on and the client keeps reading, so server->client bytes move again (a send parked in a dead network can only end with the transport)", "a send that was merely queued behind another send may report io.EOF instead of the context error (the suite's own TestCancel relies on that); operations held at a scheduling point are 'in progress', only their return is demanded"],
    "subs": [
        {"test": "TestC04ClientCancel", "prop": "C04/client_cancel", "quick": 12000, "thorough": 400000, "shards_quick": 16, "shards_thorough": 16, "gomaxprocs": 1},
        {"test": "TestC04ServerSide", "prop": "C04/server_side", "quick": 8000, "thorough": 300000, "shards_quick": 16, "shards_thorough": 16, "gomaxprocs": 1},
    ],
    "floors": {"C04/client_cancel": {"inflight_2plus": 0.15, "write_parked_at_cancel": 0.15, "soft": 0.246, "hard": 0.217, "late_ops": 0.3},
               "C04/server_side": {"handler_ops_inflight_1plus": 0.4, "handler_ops_inflight_2": 0.1, "handler_send_parked_in_transport": 0.15}},
}

CHECKS["C01"] = {
    "pkg": "./conn",
    "level": "exploration",
    "rule": ("A case is a configuration (split size -1/0/1/2/7/64/1000, writer buffer 1/16/100/default, manual or automatic flushing, soft/hard cancel, stream buffer limit, reader packet limit 64/300/5000 with messages of exactly the limit, an encoding with or without MarshalAppend, MsgSend/MsgRecv or the raw stream interface), 1..3 consecutive RPCs in one of "
             "three shapes (sequential; sender and receiver on separate goroutines on both ends; two concurrent senders per side), message sizes drawn around the split size and writer buffer boundaries, "
             "an optional closer (Close or cancel from another goroutine), optionally 1..3 scheduling points held (including the consumer parked inside Unmarshal while it borrows the read buffer), and up to 400 director "
             "choices (1-byte/7-byte/half/whole deliveries and accepts, grants, releases). Oracle: every received payload is self-describing (rpc, direction, sender, sequence, CRC) and must be the next "
             "one of its sender (no reorder/duplicate/corruption/foreign message); a skipped message must have a failed send; with automatic flushing a send that returned nil has its final frame inside the bytes "
             "the transport had taken at that instant (parsed by the reference parser); on undisturbed RPCs in flush mode every successful send is received and each drain ends with io.EOF; a receiver may skip one message its encoding cannot decode (it is consumed, never handed out again); messages the sender still holds, and slices obtained from RawRecv, keep their bytes; a connection on which nobody cancelled, closed early or failed is still open at the end. "
             "Non-trivial: a multi-frame message, concurrent senders/receivers, or the consumer parked mid-unmarshal. Distinct by action trace + programs."),
    "assumptions": E3_ASSUME + ["completeness is asserted only for RPCs nobody closes, cancels or force-closes; the explicit-flush form of the guarantee (ManualFlush) only on such RPCs",
                                "reader MaximumBufferSize is left at its default, which every generated message fits"],
    "subs": [
        {"test": "TestC01Delivery", "prop": "C01/delivery", "quick": 8000, "thorough": 300000, "shards_quick": 16, "shards_thorough": 16, "gomaxprocs": 1},
        {"test": "TestC01Delivery", "prop": "C01/delivery", "thorough": 16000, "shards_thorough": 16, "gomaxprocs": 1, "race": True, "thorough_only": True},
    ],
    "floors": {"C01/delivery": {"multi_frame_message": 0.3, "concurrent_senders_receivers": 0.4, "graceful_rpc": 0.3, "early_end": 0.2, "@nontrivial": 0.5}},
}

CHECKS["C02"] = {
    "pkg": "./conn",
    "level": "exploration",
    "rule": ("Three sub-checks. sequences: 2..6 RPCs (unary and streaming mixed) with independently drawn client/handler programs, issued one after the other or all up front from separate goroutines "
             "(queued on the connection), each possibly ended early by Close, cancel (both modes), a handler error or an undecodable message, with stall windows and scheduling points so that leftovers of RPC n are "
             "delivered after RPC n+1 has started; oracle: every delivered payload carries its own RPC's tag and direction, a unary call returns the echo of its own request, every handler-coded error observed by RPC k is k's, "
             "a handler starts at most once per call. stale_from_server: the harness plays the server at wire level and sends late packets of the previous stream (messages of the old RPC, error, close, half-close, cancel, "
             "unknown control kinds, multi-frame) before answering the current one, at drawn moments (before the stream exists, after the request is on the wire); the real client must complete every RPC with exactly its own messages. "
             "stale_from_client: the harness plays the client at wire level against the real server: late packets of the previous stream, abandoned InvokeMetadata packets, then the next invoke; every call reaches its handler exactly once, "
             "with exactly its own metadata, and the server's per-stream output is that call's own outcome. Non-trivial: leftover bytes in flight when the next RPC started or concurrent callers (sequences); stale/abandoned packets sent (peers). " 
             "writer_model: the frame writer shared by the streams of a connection, stepped through 1..14 WriteFrame/Flush/Reset operations (buffer sizes 1/16/64/1000/default, frames of 0..5000 bytes) against a model written from its documentation: the bytes handed to the transport are exactly the frames written since the last reset, flushed when the buffer is full or on Flush, and Empty() says whether anything is pending (nothing written on one stream is left behind for the next). Non-trivial there: a reset with data pending."),
    "assumptions": E3_ASSUME + ["the wire-level peers only emit id sequences a conforming endpoint could emit (non-decreasing ids); anything else legitimately kills the connection",
                                "known finding F5 shapes are excluded from the generated handler programs (see C06)"],
    "subs": [
        {"test": "TestC02Sequences", "prop": "C02/sequences", "quick": 12000, "thorough": 400000, "shards_quick": 16, "shards_thorough": 16, "gomaxprocs": 1},
        {"test": "TestC02StaleFromServer", "prop": "C02/stale_from_server", "quick": 6000, "thorough": 200000, "shards_quick": 8, "shards_thorough": 16, "gomaxprocs": 1},
        {"test": "TestC02StaleFromClient", "prop": "C02/stale_from_client", "quick": 6000, "thorough": 200000, "shards_quick": 8, "shards_thorough": 16, "gomaxprocs": 1},
        {"test": "TestWriterModel", "prop": "C02/writer_model", "pkg": "./wire", "quick": 40000, "thorough": 2000000, "shards_quick": 4, "shards_thorough": 8, "env": {"VERIF_ID_OVERRIDE": "C02"}},
    ],
    "floors": {"C02/sequences": {"leftover_bytes_when_next_rpc_started": 0.3, "concurrent_callers": 0.244}, "C02/stale_from_server": {"stale_packets_sent": 0.4},
               "C02/stale_from_client": {"stale_packets_sent": 0.4, "abandoned_call_before": 0.3}},
}

CHECKS["C07"] = {
    "pkg": "./conn",
    "level": "exploration",
    "rule": ("1..3 RPCs whose calls are all issued up front from separate goroutines; per stream up to five client goroutines (two senders of multi-frame messages, one or two terminal calls "
             "Close/CloseSend/cancel, a receiver) and handler goroutines, writer buffer 1 (every frame is its own transport write) or small, split size 1/5/64, both cancel modes, 1..4 of 19 scheduling points held "
             "(before the write lock, between frames, before terminal packets, around the semaphore and stream publication), stall windows, up to 300 weighted director choices. Oracle on the bytes each "
             "transport end accepted: whole well-formed frames (reference parser), (stream, message) ids non-decreasing, one kind per id, no frame after the done frame of an id, no trailing partial frame unless a write was rejected, "
             "accepted by the current drpcwire.Reader; the transport never saw two writes or two reads in flight; Close at most once per end. Non-trivial: more than 8 frames and (consecutive streams or points held). " 
             "writer_model: as under C02 - the frame writer against its model over WriteFrame/Flush/Reset histories."),
    "assumptions": E3_ASSUME + ["weak-memory reorderings are only touched by the thorough tier's -race build of the same test"],
    "subs": [
        {"test": "TestC07FrameStream", "prop": "C07/frame_stream", "quick": 16000, "thorough": 400000, "shards_quick": 16, "shards_thorough": 16, "gomaxprocs": 1},
        {"test": "TestC07FrameStream", "prop": "C07/frame_stream", "thorough": 32000, "shards_thorough": 16, "gomaxprocs": 1, "race": True, "thorough_only": True},
        {"test": "TestWriterModel", "prop": "C07/writer_model", "pkg": "./wire", "quick": 40000, "thorough": 2000000, "shards_quick": 4, "shards_thorough": 8},
    ],
    "floors": {"C07/frame_stream": {"consecutive_streams": 0.329, "points": 0.363, "@nontrivial": 0.231}},
}

CHECKS["C05"] = {
    "pkg": "./conn",
    "level": "fault_enumeration",
    "rule": ("A case is a deadlock-free workload (1..3 RPCs: unary with sizes up to 5000, sequential streams, streams with sender and receiver on separate goroutines on both ends, handler errors, "
             "optional cancel of the call's context once it is over), a configuration and a director schedule (up to 150 choices; optionally 1..2 scheduling points held). The workload first runs fault-free and the I/O calls of "
             "each transport end are counted (N). Then it is RE-RUN under the same schedule once per (end, k, kind) with the fault injected at the k-th Read/Write call of that end, for k = 1..N+1 "
             "(quick: every Stride-th k, Stride 1..4, and 2..3 of the kinds; thorough: every k and all kinds: read error, read error delivered with data, temporary-shaped error on a socket that stays usable, write error after j bytes, peer close, local close, application close). "
             "Oracle per fault run (flush mode): no scripted call is still inside the library at quiescence; the call whose own transport write failed returns an error; sends/invokes/new-streams issued after the failure fail; "
             "Closed() is closed and ServeOne has returned; no library goroutine remains; each transport closed at most once; every message delivered before the failure is a correct prefix on the right stream. "
             "Each fault run is one evaluation (sub-check fault_at_k); non-trivial = the fault actually fired. Distinct by (end, k, kind, trace, workload). " 
             "write_only: after 0..2 undisturbed calls only the send direction of the client transport fails (plain error, an error wrapping io.EOF, io.ErrClosedPipe) while its reads stay pending; the unary Invoke, NewStream or stream send that hits the failing write must return an error instead of waiting, the connection must then report itself closed, a receive on the stream whose send failed must fail instead of waiting for an answer that cannot come, and a further call must end with an error instead of queueing up; or only the send direction of the server transport fails: the server must give the connection up and the client's call ends."),
    "assumptions": E3_ASSUME + ["fault model: once a transport end has failed, that call and every pending and later I/O call on that end fails (a dead socket); a write that fails once and then works again is not generated",
                                "a receive issued after the failure may still return messages that reached that side before it; only absence of hangs and prefix correctness are demanded of receives"],
    "subs": [
        {"test": "TestC05Faults", "prop": "C05/workload", "quick": 640, "thorough": 6000, "shards_quick": 16, "shards_thorough": 16, "gomaxprocs": 1, "shrinktime": "60s"},
        {"test": "TestC05WriteOnly", "prop": "C05/write_only", "quick": 4000, "thorough": 100000, "shards_quick": 8, "shards_thorough": 16, "gomaxprocs": 1},
    ],
    "floors": {"C05/fault_at_k": {"fault_fired": 0.46, "fault_mid_frame": 0.05, "fault_inside_a_callers_write": 0.1}},
}

CHECKS["C12"] = {
    "pkg": "./conn",
    "level": "exploration",
    "rule": ("close: a workload of 0..2 RPCs with independently drawn client/handler programs (sequential or concurrent callers, optionally stalled directions, 1..3 of 11 scheduling points incl. the window inside terminate and the one between publishing a new stream and handing it to its watcher, goroutines either released as they arrive or held there until the close, optionally a peer message out of turn for the newest stream or an invoke-metadata packet that does not decode just before the close; the transport's own Close may take a while after it has let go of the pending I/O) "
             "is advanced by 0..40 weighted director choices; then one of Conn.Close, two concurrent Conn.Close, cancel of the serving context, both, or Conn.Close racing a failing transport read is issued and the "
             "transport is FROZEN. Oracle at quiescence: Close returned, and no Close call returned before the transport's Close had; every client (resp. handler) call returned; Closed() fired; the transport's Close was called exactly once; contexts of the active streams are done; calls "
             "issued afterwards fail. Then bytes move again: the other side shuts down too, both transports closed exactly once, no goroutine with a storj.io/drpc frame remains. "
             "serve: drpcserver.Serve on an in-memory listener with 0..3 accepted connections in drawn states (idle, handler blocked in Recv, handler blocked in Send on a stalled transport, finished RPC), optionally one more connection "
             "offered at the instant of the stop (Serve held right after Accept returned it, or Accept itself still returning it when the stop happens); Serve is stopped by context cancel or listener failure. A drawn connection may also have been left by its client before the stop (the server side's manager has then shut itself down), and closing the server-side transports may take time (Close held by the harness after the pending I/O was let go). Oracle recorded by the goroutine that called Serve at the instant it returns: every accepted transport closed exactly once - the Close call returned, not merely begun - and no ServeOne goroutine alive. "
             "Non-trivial: operations in flight at the close (close); a running handler or a late connection (serve)."),
    "assumptions": E3_ASSUME + ["handlers only block inside drpc calls", "with SoftCancel a cancelled serving context first sends a cancel packet (known finding F13, see C04): the simulated transport then accepts, but never delivers, the server's bytes"],
    "subs": [
        {"test": "TestC12Close", "prop": "C12/close", "quick": 16000, "thorough": 600000, "shards_quick": 16, "shards_thorough": 16, "gomaxprocs": 1},
        {"test": "TestC12Serve", "prop": "C12/serve", "quick": 2000, "thorough": 60000, "shards_quick": 4, "shards_thorough": 16, "gomaxprocs": 1},
    ],
    "floors": {"C12/close": {"client_ops_in_flight": 0.204, "handler_ops_in_flight": 0.015, "write_parked_in_transport": 0.1, "idle": 0.1}, "C12/serve": {"handlers_running": 0.208}},
}

CHECKS["C03"] = {
    "pkg": "./stream",
    "level": "exploration",
    "rule": ("sequential: histories of 1..12 steps over the full alphabet (local MsgSend/MsgRecv/CloseSend/Close/SendError/Cancel/SendCancel/RawWrite/RawFlush; remote message, half-close, close, error incl. < 8 bytes, "
             "cancel with/without control bit, invoke, invoke-metadata, unknown kinds 0/8/9/33/63 with and without the control bit, foreign stream id) on a bare drpcstream.Stream whose writer sink is instant; every step runs on its own "
             "goroutine to quiescence (blocked receives and deliveries stay pending; the single connection reader issues its next packet only after the previous one returned). A reference model written from state.dot and the godoc predicts "
             "for every step: returns or blocks, the error class (nil / io.EOF / decoded remote error text+code / the caller's error / any non-nil), which packet if any is emitted (kind, control bit, length; ids strictly increasing; whole frames; split size respected), "
             "which blocked calls are released and with what, and Terminated/Finished/Context().Done()/Err() after the step. "
             "parked: the k-th transport write is held while further calls are issued (frame writer with a buffer of 1, 64 or 4096 bytes, so frames are either written through or stay corked until a flush such as the one the first receive performs; the held write either succeeds or fails when released, as under a closed transport; stream options ManualFlush and MaximumBufferSize 1/16 are drawn too; alternatively the first call to reach one of nine scheduling points inside the stream - in front of a lock, or between writing a message into the frame writer and flushing it - is held there instead of a transport write); invariants at every quiescent point (finished => terminated; the stream's context is done exactly when the stream is finished; a write inside the transport => not finished; terminated with nothing in flight => finished), "
             "after the release nothing stays blocked except receives/deliveries on an unterminated stream, and nothing is emitted after termination except the terminating local call's own packet. "
             "Non-trivial: >= 2 state transitions (sequential); a parked write overlapped >= 2 pending calls (parked). " 
             "recv_after_end (metamorphic): a stream with ManualFlush or a corked first write, 0..2 flushed messages, then the peer ends it (half-close, close, error, cancel; optionally a message of the peer still waiting) and 1..3 receives follow; the same history is run without and with 1..2 messages written but not flushed, and every receive must report the same outcome (error text and code) both times."),
    "assumptions": ["the reference model (harness/stream/model.go) is a faithful reading of state.dot and the method godoc; where no specific error is documented (receive after a remote Close or a local Close/SendError) any non-nil error is accepted",
                    "the sequential check uses a 1-byte writer buffer so that nothing is left unflushed between steps; lock-level behaviour during a parked write is C04's subject"],
    "subs": [
        {"test": "TestC03Sequential", "prop": "C03/sequential", "quick": 120000, "thorough": 4000000, "shards_quick": 16, "shards_thorough": 16, "gomaxprocs": 1},
        {"test": "TestC03Parked", "prop": "C03/parked", "quick": 60000, "thorough": 2000000, "shards_quick": 16, "shards_thorough": 16, "gomaxprocs": 1},
        {"test": "TestC03RecvAfterEnd", "prop": "C03/recv_after_end", "quick": 20000, "thorough": 1000000, "shards_quick": 4, "shards_thorough": 8},
    ],
    "floors": {"C03/sequential": {"@nontrivial": 0.107, "terminated": 0.355}, "C03/parked": {"parked_write_overlapped_other_calls": 0.081, "terminated_while_write_parked": 0.05}},
}

CHECKS["C15"] = {
    "pkg": "./pool",
    "level": "exploration",
    "rule": ("A case is (capacity from -1/0/1/2/3, key capacity from -1/0/1/2, expiration none / one hour / immediate) and a history of 1..30 operations over 3 keys (optionally every 1st/2nd/3rd connection's Close reports an error; after Pool.Close nothing may stay cached): Put of a fresh connection, re-Put of one that was taken, Take, "
             "flipping a fake connection's blocked state, closing it externally, Pool.Close in the middle, and - with immediate expiration - releasing a parked expiry callback one scheduling point at a time "
             "(after each Put the harness waits until that entry's callback has arrived at its first point, so every step runs with a known set of fired-but-not-completed expiries). Oracle after every step: the verif-tagged walk of the "
             "pool's lists finds <= capacity entries in total and <= key capacity per key (none at all for negative capacities) and no connection that is currently handed out; a taken connection was put and not handed out since, "
             "has the requested key, is not closed, not blocked, and its expiry has not fired. At the end (Pool.Close, all expiries released): every put connection was handed out xor closed, never handed out more often than put; no panic. "
             "Non-trivial: an eviction happened, or an expiry callback was released in the middle of the history. "
             "poolconn: the same ownership rules through the public wrapper (Pool.Get): histories of overlapping Invokes (each parked inside the fake connection until released), streams opened and ended, streams that cannot be opened (the connection goes back to the pool), streams that end while the return of their connection to the pool takes a while (the wrapped stream's Done channel must stay open until the connection is back), over two keys and small capacities; "
             "no fake connection may ever serve two callers at once, no call may run on a connection the pool has closed, bounds hold after every step, and at the end every dialed connection is cached xor closed. Non-trivial: >= 2 calls overlapped and >= 2 connections were dialed. "
             "stress (thorough tier, built with -race): 2..6 goroutines issue 4..40 Put/Take/Close calls each on one pool at once (with or without expiration timers), nothing between them but the pool's own locking; "
             "a race report with both accesses inside storj.io/drpc, a connection closed twice, handed out closed, or closed while a caller holds it is a violation. Non-trivial: >= 2 workers."),
    "assumptions": ["expiry timers are real 1 ns timers whose callbacks park at verif scheduling points; 'fires in the middle of a Put' is not reachable (no fake clock), only 'fired and parked' and 'never fires'",
                    "a mismatch between the walked lists and the pool's own counters is recorded as a diagnostic label, not as a violation"],
    "subs": [
        {"test": "TestC15Pool", "prop": "C15/pool", "quick": 40000, "thorough": 2000000, "shards_quick": 16, "shards_thorough": 16},
        {"test": "TestC15PoolConn", "prop": "C15/poolconn", "quick": 16000, "thorough": 600000, "shards_quick": 16, "shards_thorough": 16},
        # real concurrency under the race detector (see harness/pool/stress_test.go): thorough tier only
        {"test": "TestC15PoolStress", "prop": "C15/stress", "thorough": 160000, "shards_thorough": 8, "race": True, "thorough_only": True},
    ],
    "floors": {"C15/pool": {"eviction": 0.213, "expiry_released_mid_history": 0.04, "expiry_fired_and_parked": 0.101}, "C15/poolconn": {"overlapping_calls": 0.3}},
}

CHECKS["C19"] = {
    "pkg": "./signal",
    "level": "exploration",
    "exhaustive": "sub-check C19/exhaustive enumerates ALL interleavings, at the granularity of the verif scheduling points inside setSlow/signalSlow/doSlow/Close plus a harness point before every operation, of a fixed family of 11 (quick) / 15 (thorough) small programs over Signal and Chan by stateless depth-first re-execution; the random sub-check samples beyond",
    "rule": ("Programs are 2..3 goroutines x 1..3 operations over one drpcsignal.Signal (Set(e_i), Get, Err, IsSet, Signal()+non-blocking poll followed by IsSet/Get, Wait) or one drpcsignal.Chan in its two usage families "
             "({Make, Get, Send, Recv} with balanced sends/receives; {Close once, Get}). A goroutine is only runnable when it is parked at a scheduling point (a goroutine waiting for the primitive's mutex is simply not enabled); "
             "a schedule is the sequence of which parked goroutine is released. exhaustive: every schedule of each fixed program (6..51 for two goroutines, more for three); random: rapid-drawn programs with up to 60 schedule choices. "
             "Oracle: exactly one Set returns true; every Get/Err/IsSet that starts after some Set returned sees the winner's error; an observer that finds the channel closed immediately reads IsSet()==true and the winner's error; all Signal()/Get() calls return the same channel, "
             "closed once the winning Set / Close returned; every Wait returns (no lost wake-up: no goroutine left blocked with nothing enabled); no panic. "
             "stress: 1..4 setters (each with its own non-nil error) and 1..4 observers on real goroutines, 50..400 fresh signals per case; observers poll Get / IsSet+Err / the channel until they see the signal set, then Wait; "
             "exactly one Set returns true, an observer never sees 'set' with a nil error nor any error but the winner's, a closed channel implies a visible error (the interleavings inside the lock-free fast paths, which have no scheduling point). "
             "chan_stress: 1..4 first users (Get) and one Close start together on a fresh lazy channel, 100..1000 fresh channels per case: every Get returns the same non-nil channel and it is closed once Close has returned. "
             "In the enumerated and random schedules 'thereafter' begins with the first call that returned having seen the signal set (a Set, or a Get/IsSet/poll/Wait that reported it, or an Err that returned an error): every call that starts later must see it set too. Non-trivial: every enumerated program; a random case with >= 4 scheduling steps; a stress case with >= 2 setters / getters. Distinct by program + schedule."),
    "assumptions": ["interleavings are enumerated between scheduling points, not between individual memory operations; weak-memory reorderings of the atomics are outside this check",
                    "misuse by the channel contract is not generated: double Chan.Close, Send on a closed Chan, Full concurrently with Send/Recv"],
    "subs": [
        {"test": "TestC19Exhaustive", "prop": "C19/exhaustive", "quick": 1, "thorough": 1, "shards": 1, "gomaxprocs": 1},
        {"test": "TestC19Random", "prop": "C19/random", "quick": 24000, "thorough": 800000, "shards_quick": 16, "shards_thorough": 16, "gomaxprocs": 1},
        {"test": "TestC19Random", "prop": "C19/random", "thorough": 48000, "shards_thorough": 16, "gomaxprocs": 1, "race": True, "thorough_only": True},
        # real goroutines, no director (see harness/signal/stress_test.go): interleavings inside the lock-free fast paths
        {"test": "TestC19Stress", "prop": "C19/stress", "quick": 800, "thorough": 40000, "shards_quick": 4, "shards_thorough": 8},
        {"test": "TestC19ChanStress", "prop": "C19/chan_stress", "quick": 800, "thorough": 40000, "shards_quick": 4, "shards_thorough": 8},
    ],
    "floors": {"C19/random": {"signal": 0.4, "chan": 0.2, "goroutines_3": 0.3}},
}

CHECKS["C16"] = {
    "pkg": "./migrate",
    "level": "exploration",
    "rule": ("mux: prefix length 0..8, 0..3 routes whose prefixes differ only in their last byte, 1..4 client connections (net.Pipe behind an in-memory base listener) whose first bytes match a route, match none, are shorter than the prefix, or that go away without sending a byte, "
             "payload 0..200 bytes plus a marker, written in drawn splits of 1..9 bytes (so the prefix itself is split across writes), and a history of 1..12 events (Route registration, starting an Accept loop on a listener, a connection arriving, closing a "
             "listener, registering a closed route again, cancelling Run's context, base Accept failing, a connection that the base Accept is still returning when Run is stopped), each followed by quiescence; the accepting side reads with large or with 1/2/3/5-byte buffers, at once or only after every connection of the history has passed the multiplexer; optionally the goroutine that unregisters a closed route is held in front of the unregistration until a release event (while it is held, a connection for that prefix may be closed or fall through to the default). Oracle: every connection the base listener handed out is returned by exactly one Accept - the route registered for its prefix with the prefix consumed, "
             "otherwise the default listener with the byte stream identical from byte 0 - or is closed, never both, never twice; a connection that arrived while an Accept was pending on its listener is delivered, not closed; after Run returned no Accept stays pending. "
             "header: 1..3 goroutines writing 0..3 chunks each through a HeaderConn over a recording connection whose first or second underlying write can be held until everybody else is blocked; the wire must be the header once, first, followed by every payload byte exactly once, and each Write must return its own length. "
             "Non-trivial: a connection was delivered with routes registered or with the prefix split across writes (mux); >= 2 writes (header). " 
             "dial: the three documented ways of dialing with a header (HeaderDialer.Dial, HeaderDialer.DialContext, DialWithHeader) over a unix socket in a scratch directory, 0..3 writes of 0/1/8/100 bytes: the peer reads the header once, first, then the payload."),
    "assumptions": ["events are sequenced with quiescence between them, so the set of live routes at the moment a connection arrives is known to the oracle; orders inside one event's burst are left to the Go scheduler"],
    "subs": [
        {"test": "TestC16Mux", "prop": "C16/mux", "quick": 20000, "thorough": 800000, "shards_quick": 16, "shards_thorough": 16},
        {"test": "TestC16Header", "prop": "C16/header", "quick": 20000, "thorough": 400000, "shards_quick": 8, "shards_thorough": 16},
        {"test": "TestC16Dial", "prop": "C16/dial", "quick": 2000, "thorough": 40000, "shards_quick": 4, "shards_thorough": 8},
    ],
    "floors": {"C16/mux": {"delivered": 0.152, "prefix_split_across_writes": 0.1, "routes_registered": 0.3}, "C16/header": {"concurrent_writers": 0.223, "first_write_parked": 0.246}},
}

CHECKS["C18"] = {
    "pkg": "./compat",
    "level": "exploration",
    "rule": ("wire: sequences of 1..10 packets as either version's stream layer emits them (kinds 1..7, ids increasing with stream changes, payload 0..300 KB and, rarely, exactly the 4 MiB packet limit of both readers or one byte less, split by each version's own SplitN with sizes 1/5/100/64 KiB/default/unsplit, "
             "writer buffers 1/50/default/64 KiB, frames under the v0.0.17 scanner's 1 MiB limit) plus control-bit packets from the new side (KindCancel and unknown kinds 0/9/33/63, single- and multi-frame) are encoded by the current writer and by the "
             "verbatim v0.0.17 writer and read back by both readers under chunkings 1/7/4096/all: new-encode must decode under v0.0.17 to the same packets minus the control-bit ones and under the current reader to the same plus them; old-encode must decode identically under both. "
             "metadata: maps of valid-UTF-8 strings (empty, long, special) are encoded by each version and decoded by the other to the same map. "
             "end_to_end: a current client against a v0.0.17 server and a v0.0.17 client against a current server over the simulated transport (drawn chunking): 1..4 unary/stream echo RPCs with payloads up to 70 KB; the current client cancels mid-stream in both modes "
             "(the soft cancel's control packet must leave the v0.0.17 side undisturbed); unknown-kind control packets are injected between RPCs. "
             "control_anywhere (metamorphic, against the current server): a wire-level client plays a script of 1..3 unary/stream echo calls (optional metadata packet, 0..3 messages up to 3000 bytes, half-close) twice, plainly and with unknown-kind control packets "
             "(kinds 8/9/13/31/33/62/63, one or two frames) inserted at drawn places - ahead of the call, between metadata and invoke, between messages, after the half-close (addressed to the running stream, or after its last packet to the stream that has not been invoked yet) - with the transport drained after every packet or after the whole call; "
             "the packets the server writes must be identical both times and the server must still be serving. "
             "Non-trivial: >= 2 packets with a multi-frame or control packet (wire); a non-empty map (metadata); >= 2 RPCs, a soft cancel or an injected control packet (end to end); at least one control packet inserted (control_anywhere)."),
    "assumptions": ["verif/old/drpc is a verbatim copy of storj.io/drpc@v0.0.17 from the module cache with only the import path renamed (it needs github.com/gogo/protobuf and monkit, both in the module cache)",
                    "metadata with invalid UTF-8 is outside what released peers can exchange (v0.0.17 uses protobuf string fields) and is counted as trivial",
                    "after a soft cancel a v0.0.17 server keeps running its handler (it skips the cancel packet by design); only 'undisturbed' is asserted there"],
    "subs": [
        {"test": "TestC18Wire", "prop": "C18/wire", "quick": 16000, "thorough": 800000, "shards_quick": 16, "shards_thorough": 16},
        {"test": "TestC18Metadata", "prop": "C18/metadata", "quick": 40000, "thorough": 2000000, "shards_quick": 8, "shards_thorough": 16},
        {"test": "TestC18EndToEnd", "prop": "C18/end_to_end", "quick": 4000, "thorough": 200000, "shards_quick": 16, "shards_thorough": 16, "gomaxprocs": 1},
        {"test": "TestC18ControlAnywhere", "prop": "C18/control_anywhere", "quick": 4000, "thorough": 200000, "shards_quick": 16, "shards_thorough": 16, "gomaxprocs": 1},
    ],
    "floors": {"C18/wire": {"control_packets": 0.3, "multi_frame": 0.3}, "C18/end_to_end": {"new_client_old_server": 0.248, "old_client_new_server": 0.3, "soft_cancel_ignored_by_old_peer": 0.019, "unknown_control_packet_injected": 0.2},
               "C18/control_anywhere": {"control_packets_inserted": 0.4, "between_metadata_and_invoke": 0.15}},
}

CHECKS["C17"] = {
    "pkg": "./gen",
    "level": "exploration",
    "rule": ("A case is a service descriptor built in Go (no protoc needed): package p / a.b_c.d / pkg_x / x.Y, go_package with or without alias, 1..4 services of 0..6 methods with names drawn from an alphabet of underscore/mixed-case/digit/"
             "near-colliding identifiers (A, A_B, a_b, Ab, get_item, listItems, Sync_All, Do_It2, ...), all four streaming combinations, request/response types that are local messages, a message imported from another Go package (named other, context or drpc - names the generated code also imports), or a well-known type, "
             "plugin options protolib default/custom (also under an import path ending in /proto)/github.com/gogo/protobuf and json on/off, optionally a second .proto file of the same Go package (with a service of its own) generated by the same plugin invocation. protoc-gen-go (module cache; protoc-gen-gogo from the module cache for the gogo protolib, whose messages must be gogo messages: the well-known type is replaced by a local message there) and protoc-gen-go-drpc (built from /repo each run) are fed the CodeGeneratorRequest; the harness independently derives, from the descriptor alone, the expected RPC strings, "
             "Go identifiers and method signatures and emits a driver: a server implementation with exactly those signatures, mux registration, Description checks (NumMethods, Method(i) rpc string, Method(n) not ok) and one client call per method over a real drpcconn/drpcserver pair (unary and server-streaming calls with a local request type are preceded by a request the encoding refuses to marshal - a proto3 string that is not valid UTF-8 - after which the normal call must still go through) "
             "through a connection wrapper that records the RPC name each stub uses; every server-streaming method is also received with the generated RecvMsg into one reused message (a value followed by an empty one: the second receive must leave the empty one). Verdict: go vet of generated code + driver succeeds, Register returns nil, every method round-trips, client and description RPC strings equal '/'+package.Service+'/'+Method. "
             "Non-trivial: >= 2 services, a streaming method, or an identifier that needs mangling. Distinct by descriptor."),
    "assumptions": ["descriptors, not .proto text, are explored: protoc's own parsing and validation are outside the loop",
                    "descriptors that protoc-gen-go itself maps to colliding Go identifiers are not generated; collisions produced only by the drpc plugin's naming scheme are known finding F12 (excluded by construction, replayed each run)",
                    "the gogo protolib option is not exercised (no gogo message generator is available offline)"],
    "subs": [
        {"test": "TestC17Generated", "prop": "C17/generated", "quick": 160, "thorough": 6000, "shards_quick": 16, "shards_thorough": 16, "timeout_quick": 1200, "shrinktime": "120s"},
    ],
    "floors": {"C17/generated": {"streaming_method": 0.4, "identifier_needs_mangling": 0.4, "services_2plus": 0.25, "imported_message_type": 0.3}},
}
