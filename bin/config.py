"""Per-property check configuration used by bin/check.

subs: each entry is one Test function of a harness package run as N shards
(one OS process per shard, each with its own rapid seed derived from
VERIF_SEED). quick/thorough are TOTAL case counts over all shards.
"""

CHECKS = {}

CHECKS["C08"] = {
    "pkg": "./wire",
    "level": "exploration",
    "rule": ("Frames are drawn with kinds 0..63, both flags, ids from a boundary-biased 64-bit generator and payloads up to 3 KB (70 KiB thorough); "
             "byte strings come from 8 structure-aware malformation families (truncation at a drawn offset, padded varints of 1..11 bytes, huge declared lengths, "
             "10-byte varints with hostile last byte, bit flips, hostile-alphabet and random strings) plus the exhaustive enumeration. Oracles: round trip, "
             "differential against an independent reference decoder (class, fields, exact remainder), constructive completion of every need-more input, "
             "need-more for every proper prefix, varint round trip/length/LEB128 agreement, SplitN/SplitData laws. "
             "Non-trivial: a multi-byte varint or non-empty payload (round trip), input of >= 4 bytes (differential), encoding longer than 4 bytes (prefixes), "
             "value >= 128 (varint), multi-frame or exact-multiple split (split); every enumerated string counts once."),
    "exhaustive": "sub-check C08/exhaustive enumerates ALL byte strings of length <= 2 and all strings of length 3..5 over {00,01,7f,80,ff} and 6..8 (12 thorough) over {00,80,ff}; the other sub-checks sample",
    "assumptions": ["the reference decoder in harness/ref/frame.go is a faithful reading of drpcwire/README.md (10th varint byte: value mod 2^64; non-minimal varints accepted)",
                    "sampling beyond the enumerated short strings"],
    "subs": [
        {"test": "TestC08RoundTrip", "prop": "C08/roundtrip", "quick": 60000, "thorough": 3000000, "shards_quick": 2, "shards_thorough": 8},
        {"test": "TestC08Differential", "prop": "C08/differential", "quick": 120000, "thorough": 8000000, "shards_quick": 4, "shards_thorough": 16},
        {"test": "TestC08Prefixes", "prop": "C08/prefixes", "quick": 20000, "thorough": 500000, "shards_quick": 2, "shards_thorough": 4},
        {"test": "TestC08Varint", "prop": "C08/varint", "quick": 30000, "thorough": 2000000, "shards_quick": 1, "shards_thorough": 4},
        {"test": "TestC08VarintBytes", "prop": "C08/varintbytes", "quick": 30000, "thorough": 2000000, "shards_quick": 1, "shards_thorough": 4},
        {"test": "TestC08Split", "prop": "C08/split", "quick": 20000, "thorough": 400000, "shards_quick": 2, "shards_thorough": 8},
        {"test": "TestC08Exhaustive", "prop": "C08/exhaustive", "quick": 1, "thorough": 1, "shards": 1},
    ],
    "floors": {"C08/differential": {"class_error": 0.03, "class_need-more": 0.10, "class_ok": 0.15, "completed": 0.05},
               "C08/varintbytes": {"class_error": 0.03, "class_need-more": 0.1},
               "C08/roundtrip": {"@nontrivial": 0.5}},
}
