"""Per-property check configuration used by bin/check.

subs: each entry is one Test function of a harness package run as N shards
(one OS process per shard, each with its own rapid seed derived from
VERIF_SEED). quick/thorough are TOTAL case counts over all shards.
"""

CHECKS = {}

CHECKS["C08"] = {
    "pkg": "./wire",
    "level": "exploration",
    "rule": ("Frames are drawn with kinds 0..63, both flags, ids from a boundary-biased 64-bit generator and payloads up to 3 KB (70 KiB thorough); "
             "byte strings come from 8 structure-aware malformation families (truncation at a drawn offset, padded varints of 1..11 bytes, huge declared lengths, "
             "10-byte varints with hostile last byte, bit flips, hostile-alphabet and random strings) plus the exhaustive enumeration. Oracles: round trip, "
             "differential against an independent reference decoder (class, fields, exact remainder), constructive completion of every need-more input, "
             "need-more for every proper prefix, varint round trip/length/LEB128 agreement, SplitN/SplitData laws. "
             "Non-trivial: a multi-byte varint or non-empty payload (round trip), input of >= 4 bytes (differential), encoding longer than 4 bytes (prefixes), "
             "value >= 128 (varint), multi-frame or exact-multiple split (split); every enumerated string counts once."),
    "exhaustive": "sub-check C08/exhaustive enumerates ALL byte strings of length <= 2 and all strings of length 3..5 over {00,01,7f,80,ff} and 6..8 (12 thorough) over {00,80,ff}; the other sub-checks sample",
    "assumptions": ["the reference decoder in harness/ref/frame.go is a faithful reading of drpcwire/README.md (10th varint byte: value mod 2^64; non-minimal varints accepted)",
                    "sampling beyond the enumerated short strings"],
    "subs": [
        {"test": "TestC08RoundTrip", "prop": "C08/roundtrip", "quick": 60000, "thorough": 3000000, "shards_quick": 2, "shards_thorough": 8},
        {"test": "TestC08Differential", "prop": "C08/differential", "quick": 120000, "thorough": 8000000, "shards_quick": 4, "shards_thorough": 16},
        {"test": "TestC08Prefixes", "prop": "C08/prefixes", "quick": 20000, "thorough": 500000, "shards_quick": 2, "shards_thorough": 4},
        {"test": "TestC08Varint", "prop": "C08/varint", "quick": 30000, "thorough": 2000000, "shards_quick": 1, "shards_thorough": 4},
        {"test": "TestC08VarintBytes", "prop": "C08/varintbytes", "quick": 30000, "thorough": 2000000, "shards_quick": 1, "shards_thorough": 4},
        {"test": "TestC08Split", "prop": "C08/split", "quick": 20000, "thorough": 400000, "shards_quick": 2, "shards_thorough": 8},
        {"test": "TestC08Exhaustive", "prop": "C08/exhaustive", "quick": 1, "thorough": 1, "shards": 1},
    ],
    "floors": {"C08/differential": {"class_error": 0.03, "class_need-more": 0.10, "class_ok": 0.15, "completed": 0.05},
               "C08/varintbytes": {"class_error": 0.03, "class_need-more": 0.1},
               "C08/roundtrip": {"@nontrivial": 0.5}},
}

CHECKS["C09"] = {
    "pkg": "./wire",
    "level": "exploration",
    "rule": ("A case is a script of 1..8 packets (1..4 frames each, sizes around 0/30/600/max, kinds 0..9, control bits, padded varints, ids advancing by +1, skips, new streams, "
             "and at the 64-bit boundary) with hostile steps mixed in (kind change, missing done flag, id going backwards, reuse of a completed id), an optional tail "
             "(garbage, truncated frame, never-completing frame declaring up to 2^64-1 bytes), a maximum from {1..20000, default}, and 2-3 partitions of the SAME bytes "
             "into reads (byte-by-byte, all at once, drawn cuts, cuts around 4096, empty reads sprinkled, final error attached to the last data or delivered alone). "
             "Oracle: packets and first-error class equal the reference reassembly (harness/ref/reassemble.go) for every partition, partitions agree with each other, "
             "and reader buffers / largest requested read stay <= 4*max+64KiB. Non-trivial: >= 2 outcomes (packets + error), at least one multi-frame/discard/malformed/"
             "truncation event, and the partitions differ. Sub-check hostile: endless oversized frame must be rejected within the memory bound; stall: >= 100 empty reads."),
    "assumptions": ["reference reassembly written from the statement; first acceptable id is (stream 1, message 1) as the stream layer emits",
                    "don't-care band: a frame whose header+payload exceeds max+28 by at most 3 bytes while its payload fits (headers can be 31 bytes, the reader budgets 28); ids exhausted at (2^64-1, 2^64-1)",
                    "empty reads are outside the statement's quantifier; fewer than 99 in a row must not change the result"],
    "subs": [
        {"test": "TestC09Reassembly", "prop": "C09/reassembly", "quick": 60000, "thorough": 4000000, "shards_quick": 8, "shards_thorough": 16},
        {"test": "TestC09Hostile", "prop": "C09/hostile", "quick": 300, "thorough": 5000, "shards_quick": 2, "shards_thorough": 4},
        {"test": "TestC09Stall", "prop": "C09/stall", "quick": 300, "thorough": 3000, "shards": 1},
    ],
    "floors": {"C09/reassembly": {"@nontrivial": 0.2, "ev_discard_unfinished": 0.05, "ev_continuation": 0.3, "ev_id_backwards": 0.03, "ev_kind_change": 0.01,
                                  "ev_oversize_packet": 0.02, "class_protocol": 0.2, "class_io": 0.2}},
}
